"""Strict vs. collecting loading of documents with malformed common attributes
(tags, title, name, taxonomy, related, id) for rules, correlation rules, filters and collections."""
import copy
import sys

import yaml

from sigma.collection import SigmaCollection
from sigma.correlations import SigmaCorrelationRule
from sigma.exceptions import SigmaError
from sigma.filters import SigmaFilter
from sigma.rule import SigmaRule
from sigma.rule.attributes import SigmaRelated
from sigma.rule.base import SigmaRuleBase

RULE = {
    "title": "Base rule",
    "id": "5013332f-8a70-4a04-bcc1-06a98a2cca2e",
    "name": "base_rule",
    "status": "test",
    "level": "high",
    "tags": ["attack.t1059", "cve.2024-0001"],
    "related": [{"id": "08fbc97d-0a2f-491c-ae21-8ffcfd3174e9", "type": "derived"}],
    "logsource": {"category": "process_creation", "product": "windows"},
    "detection": {"sel": {"Image|endswith": "\\cmd.exe"}, "condition": "sel"},
}
CORRELATION = {
    "title": "Base correlation",
    "id": "0e95725d-7320-415d-80f7-004da920fc11",
    "tags": ["attack.t1110"],
    "correlation": {
        "type": "event_count",
        "rules": ["base_rule"],
        "group-by": ["User"],
        "timespan": "1h",
        "condition": {"gte": 10},
    },
}
FILTER = {
    "title": "Base filter",
    "id": "11111111-2222-3333-4444-555555555555",
    "tags": ["attack.t1059"],
    "logsource": {"category": "process_creation", "product": "windows"},
    "filter": {"rules": ["base_rule"], "sel": {"User": "admin"}, "condition": "not sel"},
}

DELETE = object()
MUTATIONS = [
    ("tags", None), ("tags", []), ("tags", "attack.t1059"), ("tags", {"attack": "t1059"}), ("tags", 5),
    ("tags", ["nodot"]), ("tags", ["a.b", 7, "nodot", None, "c.d.e", ["x.y"], {"k": "v"}, ""]),
    ("tags", [".", "a.", ".b", "a.b", "a.b"]), ("tags", [True, 1.5]), ("tags", DELETE),
    ("title", None), ("title", DELETE), ("title", ""), ("title", 42), ("title", ["a"]), ("title", {"a": 1}),
    ("title", "x" * 256), ("title", "x" * 257), ("title", True), ("title", 0),
    ("name", None), ("name", ""), ("name", 17), ("name", ["n"]), ("name", {"n": 1}), ("name", "ok"), ("name", False),
    ("taxonomy", None), ("taxonomy", ""), ("taxonomy", 3), ("taxonomy", ["t"]), ("taxonomy", "custom"), ("taxonomy", DELETE),
    ("related", None), ("related", []), ("related", "x"), ("related", {"id": "x", "type": "derived"}), ("related", 3),
    ("related", ["x"]), ("related", [None]), ("related", [{}]), ("related", [{"id": "08fbc97d-0a2f-491c-ae21-8ffcfd3174e9"}]),
    ("related", [{"type": "derived"}]), ("related", [{"id": 5, "type": "derived"}]),
    ("related", [{"id": "no-uuid", "type": "derived"}]), ("related", [{"id": "08fbc97d-0a2f-491c-ae21-8ffcfd3174e9", "type": 5}]),
    ("related", [{"id": "08fbc97d-0a2f-491c-ae21-8ffcfd3174e9", "type": "nonsense"}]),
    ("related", [{"id": "08fbc97d-0a2f-491c-ae21-8ffcfd3174e9", "type": "SIMILAR", "extra": 1}, {"type": "x"}, 5]),
    ("related", [{"id": None, "type": None}]),
    ("id", None), ("id", 5), ("id", "nope"), ("id", ["a"]), ("id", {"a": 1}), ("id", DELETE),
    ("id", "5013332F8A704A04BCC106A98A2CCA2E"), ("id", 5.5), ("id", True),
]
COMBINED = [
    {"title": None, "tags": [1, "x"], "name": "", "taxonomy": "", "related": [5], "id": "zz", "level": "bad", "date": "1-1-1"},
    {"title": "y" * 300, "tags": "t", "name": 5, "taxonomy": 5, "related": "r", "status": [], "author": 5},
]


def describe_error(e):
    return f"{type(e).__name__}: {e}"


def describe_obj(obj):
    if isinstance(obj, SigmaCollection):
        return "collection[" + "; ".join(describe_obj(r) for r in obj.rules) + "]"
    rel = None if obj.related is None else (
        [(str(i.id), str(i.type)) for i in obj.related.related] if isinstance(obj.related, SigmaRelated) else repr(obj.related)
    )
    return (f"title={obj.title!r:.40} id={obj.id!r} name={obj.name!r} taxonomy={obj.taxonomy!r} "
            f"tags={[str(t) for t in obj.tags]} related={rel} custom={sorted(map(str, obj.custom_attributes))}")


def check(label, loader):
    raised = None
    try:
        strict = loader(False)
    except SigmaError as e:
        raised = e
    try:
        collected = loader(True)
    except Exception as e:  # must never happen
        print(f"{label}: COLLECTING MODE RAISED {type(e).__name__}: {e}")
        return False
    errs = list(collected.errors)
    ok = (bool(errs) == (raised is not None)) and (raised is None or errs[0] == raised)
    print(f"{label}: strict={'ok' if raised is None else describe_error(raised)}")
    print(f"    collected={[describe_error(e) for e in errs]}")
    print(f"    object={describe_obj(collected)} consistent={ok}")
    if raised is None:
        print(f"    strict object equal={describe_obj(strict) == describe_obj(collected)}")
    return ok


def mutate(base, key, value):
    d = copy.deepcopy(base)
    if value is DELETE:
        d.pop(key, None)
    else:
        d[key] = value
    return d


def main():
    all_ok = True
    kinds = [("rule", RULE, SigmaRule), ("correlation", CORRELATION, SigmaCorrelationRule), ("filter", FILTER, SigmaFilter)]
    for kind, base, cls in kinds:
        all_ok &= check(f"{kind} base", lambda c, b=base, k=cls: k.from_dict(copy.deepcopy(b), collect_errors=c))
        for n, (key, value) in enumerate(MUTATIONS):
            doc = mutate(base, key, value)
            shown = "<deleted>" if value is DELETE else repr(value)[:50]
            all_ok &= check(f"{kind} #{n} {key}={shown}", lambda c, d=doc, k=cls: k.from_dict(copy.deepcopy(d), collect_errors=c))
        for n, extra in enumerate(COMBINED):
            doc = copy.deepcopy(base)
            doc.update(copy.deepcopy(extra))
            all_ok &= check(f"{kind} combined#{n}", lambda c, d=doc, k=cls: k.from_dict(copy.deepcopy(d), collect_errors=c))

    # the common-parameter parser directly: kwargs and errors list
    for n, extra in enumerate(COMBINED):
        doc = copy.deepcopy(RULE)
        doc.update(copy.deepcopy(extra))
        kwargs, errors = SigmaRule.from_dict_common_params(doc, collect_errors=True)
        print(f"common#{n}: tags={kwargs['tags']!r} title={kwargs['title']!r:.30} name={kwargs['name']!r} "
              f"taxonomy={kwargs['taxonomy']!r} related={kwargs['related']!r} id={kwargs['id']!r}")
        print(f"    errors={[describe_error(e) for e in errors]}")

    # SigmaRelated.from_dict directly, including non-list iterables
    for val in ([], [{"id": "08fbc97d-0a2f-491c-ae21-8ffcfd3174e9", "type": "renamed"}], [{"type": "x"}], [{"id": "x"}],
                [{}], ["s"], ({"id": "08fbc97d-0a2f-491c-ae21-8ffcfd3174e9", "type": "merged"},), "ab", {"id": 1}, 5, None):
        try:
            r = SigmaRelated.from_dict(val)
            print(f"related {val!r:.60}: {[(str(i.id), str(i.type)) for i in r.related]}")
        except Exception as e:
            print(f"related {val!r:.60}: {type(e).__name__}: {e}")

    # collections: several documents, YAML input, bad documents in between
    docs = [RULE, mutate(RULE, "tags", ["bad", 3]), CORRELATION, mutate(FILTER, "title", DELETE),
            mutate(CORRELATION, "related", [{"id": "q"}]), mutate(RULE, "name", "")]
    for n in range(len(docs)):
        subset = [copy.deepcopy(d) for d in docs[: n + 1]]
        all_ok &= check(f"collection from_dicts first {n + 1}", lambda c, s=subset: SigmaCollection.from_dicts(copy.deepcopy(s), collect_errors=c))
    text = "---\n".join(yaml.safe_dump(d) for d in docs)
    all_ok &= check("collection from_yaml", lambda c: SigmaCollection.from_yaml(text, collect_errors=c))
    all_ok &= check("rule from_yaml tags", lambda c: SigmaRule.from_yaml(yaml.safe_dump(mutate(RULE, "tags", ["x", "y.z", 1])), collect_errors=c))

    print("ALL CONSISTENT" if all_ok else "INCONSISTENCIES SEEN")
    return 0


if __name__ == "__main__":
    sys.exit(main())
