"""Exercise the plain-value writers of the Sigma types and the rule round trip built on them.

Run as: PYTHONPATH=<checkout> /venv/bin/python demo.py
Prints everything that is observed; exits 0 when all observations could be made.
"""

import yaml

from sigma import types as t
from sigma.backends.test import TextQueryTestBackend
from sigma.collection import SigmaCollection
from sigma.correlations import SigmaCorrelationRule
from sigma.exceptions import SigmaError
from sigma.filters import SigmaFilter
from sigma.processing.pipeline import ProcessingItem, ProcessingPipeline
from sigma.processing.transformations import (
    AddFieldnamePrefixTransformation,
    FieldMappingTransformation,
    ReplaceStringTransformation,
    ValueListPlaceholderTransformation,
)
from sigma.rule import SigmaRule


def observe(label, func):
    try:
        result = func()
        print(f"{label}: {type(result).__name__} {result!r}")
    except Exception as e:  # the class and the message are the observation
        print(f"{label}: RAISED {type(e).__module__}.{type(e).__name__}: {e}")


print("=== 1. per-type plain values ===")
strings = [
    "",
    "plain",
    "a*b?c",
    r"a\*b\?c",
    r"back\\slash\\*",
    r"C:\Windows\System32\*.exe",
    "*",
    "?",
    "**??",
    r"\*\?",
    "%placeholder%",
    "pre%var%post*",
    r"\%not\%",
    "unicode-\u00e4\u00f6\u00fc-\u2603*",
    " spaces and\ttabs?",
    "a|b(c)[d]{e}.+^$",
]
for s in strings:
    val = t.SigmaString(s)
    observe(f"SigmaString({s!r}).to_plain()", val.to_plain)
    observe(f"SigmaString({s!r}).to_plain(True)", lambda: val.to_plain(True))
    observe(f"SigmaString({s!r}).to_plain(regex=1)", lambda: val.to_plain(regex=1))
    observe(f"SigmaString({s!r}).to_plain_regex()", val.to_plain_regex)
    observe(f"str(SigmaString({s!r}))", lambda: str(val))
    observe(f"bytes(SigmaString({s!r}))", lambda: bytes(val))

with_placeholders = t.SigmaString("x%first%*%second%?y").insert_placeholders()
print("parts:", with_placeholders.s)
observe("placeholders.to_plain()", with_placeholders.to_plain)
observe("placeholders.to_plain(True)", lambda: with_placeholders.to_plain(True))

cased = t.SigmaCasedString("CaSe*d?")
observe("SigmaCasedString.to_plain()", cased.to_plain)
observe("SigmaCasedString.to_plain(True)", lambda: cased.to_plain(True))


class Shout(str):
    """String part of a subclass of str."""

    def replace(self, *args):
        return Shout(str.replace(self, *args).upper())


hand_made = t.SigmaString()
hand_made.s = [Shout("ab*c"), t.SpecialChars.WILDCARD_SINGLE, t.Placeholder("p"), "?", t.Placeholder(5)]
observe("hand made parts to_plain()", hand_made.to_plain)
observe("hand made parts to_plain(True)", lambda: hand_made.to_plain(True))
observe("hand made parts type", lambda: type(hand_made.to_plain(True)))

for bad in (5, None, b"bytes", 1.5, ["x"], t.TimestampPart.HOUR):
    broken = t.SigmaString("good*")
    broken.s = ["good", t.SpecialChars.WILDCARD_MULTI, bad, "never reached"]
    observe(f"part {bad!r} to_plain()", broken.to_plain)
    observe(f"part {bad!r} to_plain(True)", lambda: broken.to_plain(True))

observe("SigmaNumber(5)", t.SigmaNumber(5).to_plain)
observe("SigmaNumber(-7.25)", t.SigmaNumber(-7.25).to_plain)
observe("SigmaNumber('12')", t.SigmaNumber("12").to_plain)
observe("SigmaNumber('1.0')", lambda: t.SigmaNumber("1.0").to_plain())
observe("SigmaNumber(2**60)", lambda: t.SigmaNumber(2**60).to_plain())
observe("SigmaNumber(3.0)", lambda: t.SigmaNumber(3.0).to_plain())
observe("SigmaBool(True)", t.SigmaBool(True).to_plain)
observe("SigmaBool(False)", t.SigmaBool(False).to_plain)
observe("SigmaNull()", t.SigmaNull().to_plain)
observe("SigmaExists(True)", t.SigmaExists(True).to_plain)
observe("SigmaExists(False)", t.SigmaExists(False).to_plain)
observe(
    "SigmaTimestampPart(HOUR, 13)", t.SigmaTimestampPart(t.TimestampPart.HOUR, 13).to_plain
)
observe("SigmaRegularExpression", t.SigmaRegularExpression(r"a.*\d+\\x?[*?]").to_plain)
observe(
    "SigmaRegularExpression with flags",
    t.SigmaRegularExpression("foo*", {t.SigmaRegularExpressionFlag.IGNORECASE}).to_plain,
)
observe("SigmaCIDRExpression", t.SigmaCIDRExpression("10.0.0.0/8").to_plain)
observe(
    "SigmaCompareExpression",
    t.SigmaCompareExpression(
        t.SigmaNumber(3), t.SigmaCompareExpression.CompareOperators.GTE
    ).to_plain,
)
observe("SigmaFieldReference", t.SigmaFieldReference("other").to_plain)
observe("SigmaQueryExpression", t.SigmaQueryExpression("{field} in x", "id").to_plain)
observe("SigmaExpansion", t.SigmaExpansion([t.SigmaString("a")]).to_plain)


class Bare(t.SigmaType):
    """Type without an annotated member."""


class Annotated(t.SigmaType):
    first: str
    second: int

    def __init__(self, first, second):
        self.first = first
        self.second = second


class Derived(Annotated):
    third: float = 1.5


class Unset(t.SigmaType):
    missing: str

    def __init__(self):
        pass


class Fallback(Unset):
    other: str

    def __getattr__(self, name):
        return f"fallback for {name}"


observe("Bare().to_plain()", Bare(None).to_plain)
observe("Annotated.to_plain()", Annotated("one", 2).to_plain)
observe("Derived.to_plain()", Derived("one", 2).to_plain)
observe("Unset.to_plain()", Unset().to_plain)
observe("Fallback.to_plain()", Fallback().to_plain)
shadow = Annotated("one", 2)
shadow._plain_member_name = "instance attribute"
observe("instance attribute does not matter", shadow.to_plain)

print()
print("=== 2. rules: dict, YAML and query round trip ===")

RULES = {
    "strings and wildcards": r"""
title: Strings
id: 0e95725d-7320-415d-80f7-004da920fc11
status: test
date: 2024-02-03
modified: 2024/05/06
tags: [attack.t1059, attack.execution]
custom: {nested: [1, "a*"]}
logsource: {category: process_creation, product: windows, custom_ls: x}
detection:
  sel:
    Image|endswith: '\cmd.exe'
    CommandLine|contains|all: ['a*b', 'c\*d', 'e\\*f', '?']
    User: ['*admin*', 'root', '']
    Literal: 'x\?y\*z'
  cond2:
    Path|startswith: 'C:\Users\\'
  condition: sel and not cond2
""",
    "numbers, bools, null, keywords": r"""
title: Plain types
logsource: {product: linux}
detection:
  sel:
    EventID: [1, 4688, 2.5]
    Flag: true
    Other: false
    Empty: null
    Nothing|exists: true
    Gone|exists: false
  keywords: ['single*', 'second?', 3]
  one: keyword
  condition: sel or keywords or one
""",
    "regular expressions": r"""
title: Regular expressions
logsource: {category: test}
detection:
  sel:
    a|re: 'foo.*\d+\\bar\*'
    b|re|i|m: '^A?b*$'
    c|re: ['x*', 'y?', 'a\\*b']
  condition: sel
""",
    "value modifiers": r"""
title: Modifiers
logsource: {category: test}
detection:
  sel:
    a|base64offset|contains: 'pay\*load'
    b|windash|contains: ' -exec /x'
    c|cidr: ['192.168.0.0/16', '::1/128']
    d|cased|startswith: 'CaSe?'
    e|fieldref: otherfield
    f|gte: 15
    g|minute: 30
    h|wide|base64: 'text'
    i|neq: 'no*'
  condition: sel
""",
    "placeholders": r"""
title: Placeholders
logsource: {category: test}
detection:
  sel:
    a|expand: '%users%'
    b|expand|contains: 'x%hosts%y*'
    c: '%literal%'
  condition: sel
""",
    "lists of maps and several conditions": r"""
title: Lists of maps
logsource: {service: sysmon}
detection:
  sel:
    - a: 1
      b|contains: 'x*y'
    - c|endswith: ['?', '\?']
  other:
    d: e
  condition:
    - sel
    - 1 of sel* and not other
""",
}

placeholder_pipeline = ProcessingPipeline(
    [
        ProcessingItem(
            ValueListPlaceholderTransformation(),
        )
    ],
    vars={"users": ["alice", "bob*"], "hosts": ["h1", "h?2"]},
)


def queries(rule):
    pipeline = placeholder_pipeline if "laceholder" in rule.title else None
    return TextQueryTestBackend(pipeline).convert(SigmaCollection([rule]))


for name, text in RULES.items():
    print(f"--- {name}")
    rule = SigmaRule.from_yaml(text)
    written = rule.to_dict()
    print("dict:", written)
    dumped = yaml.safe_dump(written, sort_keys=False)
    print(dumped)
    reloaded = SigmaRule.from_dict(written)
    from_yaml = SigmaRule.from_yaml(dumped)
    print("same dict after reload:", reloaded.to_dict() == written)
    print("same dict after YAML:", from_yaml.to_dict() == written)
    print("equal rule objects:", reloaded == rule, from_yaml == rule)
    for label, obj in (("original", rule), ("reloaded", reloaded), ("yaml", from_yaml)):
        observe(f"queries {label}", lambda: queries(obj))

print()
print("=== 3. correlation rules and filters ===")
CORRELATION = """
title: Correlation
name: corr
status: test
correlation:
  type: value_count
  rules: [first, 5f6e7c2b-0000-4000-8000-000000000001]
  group-by: [user, alias_field]
  timespan: 10m
  aliases:
    alias_field:
      first: src*
      5f6e7c2b-0000-4000-8000-000000000001: dst?
  condition:
    gte: 3
    field: target
"""
corr = SigmaCorrelationRule.from_yaml(CORRELATION)
corr_dict = corr.to_dict()
print("dict:", corr_dict)
print(
    "same dict after reload:",
    SigmaCorrelationRule.from_dict(corr_dict).to_dict() == corr_dict,
    SigmaCorrelationRule.from_yaml(yaml.safe_dump(corr_dict)).to_dict() == corr_dict,
)

FILTER = r"""
title: Filter
logsource: {category: process_creation, product: windows}
filter:
  rules: [0e95725d-7320-415d-80f7-004da920fc11]
  selection:
    User|startswith: 'adm_*\*'
    Image|re: '.*\\good\.exe$'
  condition: not selection
"""
flt = SigmaFilter.from_yaml(FILTER)
flt_dict = flt.to_dict()
print("dict:", flt_dict)
print(
    "same dict after reload:",
    SigmaFilter.from_dict(flt_dict).to_dict() == flt_dict,
    SigmaFilter.from_yaml(yaml.safe_dump(flt_dict)).to_dict() == flt_dict,
)
target = SigmaRule.from_yaml(RULES["strings and wildcards"])
filtered = flt.apply_on_rule(target)
detection_names = sorted(
    (n if not n.startswith("_filt_") else "_filt_<random>" + n[16:])
    for n in filtered.detection.detections
)
print("detections after filter:", detection_names)
observe(
    "filter detection written",
    lambda: [
        d.to_plain() for n, d in filtered.detection.detections.items() if n.startswith("_filt_")
    ],
)

print()
print("=== 4. rules changed by a pipeline ===")
PIPELINES = {
    "field prefix": lambda: AddFieldnamePrefixTransformation("win."),
    "field mapping one to one": lambda: FieldMappingTransformation({"User": "user.name"}),
    "field mapping one to many": lambda: FieldMappingTransformation({"User": ["user.name", "user.id"]}),
    "replace string": lambda: ReplaceStringTransformation(regex="admin", replacement="ADM*?"),
    "replace string unchanged": lambda: ReplaceStringTransformation(regex="nomatch", replacement="x"),
}
for name, make_transformation in PIPELINES.items():
    for rule_name in ("strings and wildcards", "regular expressions", "value modifiers"):
        rule = SigmaRule.from_yaml(RULES[rule_name])
        ProcessingPipeline([ProcessingItem(make_transformation())]).apply(rule)
        try:
            written = rule.to_dict()
            print(f"{name} / {rule_name}: dict {written['detection']}")
            reloaded = SigmaRule.from_dict(written)
            print("   same dict after reload:", reloaded.to_dict() == written)
            observe("   queries changed rule", lambda: TextQueryTestBackend().convert_rule(rule))
            observe("   queries reloaded", lambda: TextQueryTestBackend().convert_rule(reloaded))
        except SigmaError as e:
            print(f"{name} / {rule_name}: RAISED {type(e).__name__}: {e}")

print()
print("done")
