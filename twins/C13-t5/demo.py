"""Demo for C13/t5: conditions on pipeline state and on earlier items' application
(sigma/processing/conditions/state.py) and their effect on where a later item acts."""
import itertools

from sigma.exceptions import SigmaError
from sigma.processing.conditions import (
    DetectionItemProcessingStateCondition,
    FieldNameProcessingItemAppliedCondition,
    FieldNameProcessingStateCondition,
    RuleProcessingStateCondition,
    IncludeFieldCondition,
)
from sigma.processing.conditions.state import ProcessingStateConditionBase
from sigma.processing.pipeline import ProcessingItem, ProcessingPipeline
from sigma.processing.transformations import (
    FieldMappingTransformation,
    SetStateTransformation,
    AddFieldnameSuffixTransformation,
)
from sigma.rule import SigmaRule, SigmaDetectionItem

RULE_YAML = """
title: Test
status: test
logsource:
    category: process_creation
    product: windows
detection:
    sel:
        Image|endswith: '\\\\cmd.exe'
        CommandLine|contains: 'whoami'
        User: null
    filter:
        Other|fieldref: Image
    condition: sel and not filter
fields:
    - Image
    - User
"""
RULE = SigmaRule.from_yaml(RULE_YAML)
DI = SigmaDetectionItem.from_mapping("Image", "x")


class FakePipeline:
    def __init__(self, state):
        self.state = state


class Weird:
    """State value with its own comparison results."""

    def __eq__(self, other):
        return "yes"

    def __ne__(self, other):
        return 0

    def __ge__(self, other):
        return []

    def __gt__(self, other):
        return NotImplemented

    def __le__(self, other):
        raise RuntimeError("no <=")

    def __lt__(self, other):
        return None

    __hash__ = None


class OpLike:
    """An 'op' value that is not a string but compares equal to one name."""

    def __init__(self, name):
        self.name = name
        self.seen = []

    def __eq__(self, other):
        self.seen.append(other)
        return other == self.name

    __hash__ = None

    def __repr__(self):
        return f"OpLike({self.name!r})"


def run(f):
    try:
        return repr(f())
    except Exception as e:
        return f"ERR {type(e).__name__}: {e}"


print("== 1. match_state: every operation x state values x condition values")
OPS = ["eq", "ne", "gte", "gt", "lte", "lt", "EQ", "", "ge", None, 5, ["eq"], "eq "]
STATES = [
    {},
    {"k": 1},
    {"k": 2},
    {"k": 2.0},
    {"k": True},
    {"k": "2"},
    {"k": "abc"},
    {"k": None},
    {"k": [1, 2]},
    {"k": float("nan")},
    {"k": Weird()},
    {"other": 2},
]
VALS = [2, 1.5, "2", "b", True, None]
for op, val in itertools.product(OPS, VALS):
    cond = ProcessingStateConditionBase("k", val, op)
    print(repr(op), repr(val), [run(lambda: cond.match_state(FakePipeline(s))) for s in STATES])

print("== 2. op objects with their own __eq__")
for name in ["eq", "lt", "gte", "zzz"]:
    op = OpLike(name)
    cond = ProcessingStateConditionBase("k", 3, op)
    print(name, run(lambda: cond.match_state(FakePipeline({"k": 3}))), op.seen)
    op.seen.clear()
    print(name, "missing key:", run(lambda: cond.match_state(FakePipeline({}))), op.seen)

print("== 3. state lookup failures other than a missing key")
cond = ProcessingStateConditionBase(["unhashable"], 1)
print(run(lambda: cond.match_state(FakePipeline({"k": 1}))))
print(run(lambda: cond.match_state(FakePipeline(None))))
print(run(lambda: ProcessingStateConditionBase("k", 1, "bad").match_state(FakePipeline({}))))

print("== 4. conditions without / with pipeline")
conds = [
    ("rule", RuleProcessingStateCondition("k", 2, "gte"), lambda c: c.match(RULE)),
    ("di", DetectionItemProcessingStateCondition("k", 2, "lt"), lambda c: c.match(DI)),
    ("fn", FieldNameProcessingStateCondition("k", 2, "ne"), lambda c: c.match_field_name("f")),
    ("fn-none", FieldNameProcessingStateCondition("k", 2), lambda c: c.match_field_name(None)),
    ("fn-di", FieldNameProcessingStateCondition("k", "x", "bogus"), lambda c: c.match_detection_item(DI)),
    ("fn-applied", FieldNameProcessingItemAppliedCondition("it"), lambda c: c.match_field_name("f")),
    ("fn-applied-none", FieldNameProcessingItemAppliedCondition("it"), lambda c: c.match_field_name(None)),
    ("fn-applied-di", FieldNameProcessingItemAppliedCondition("it"), lambda c: c.match_detection_item(DI)),
]
for name, c, call in conds:
    print(name, "no pipeline:", run(lambda: call(c)))
for state in [None, {}, {"k": 1}, {"k": 2}, {"k": 3}, {"k": "x"}]:
    p = ProcessingPipeline()
    p.apply(SigmaRule.from_yaml(RULE_YAML), state)
    p.field_name_applied_ids["f"].add("it")
    for name, c, call in conds:
        c._clear_pipeline()
        c.set_pipeline(p)
        print(repr(state), name, run(lambda: call(c)), "| again:", run(lambda: call(c)))
    print("   field ids after:", {k: sorted(v) for k, v in p.field_name_applied_ids.items()})
for name, c, call in conds:
    print(name, "set twice:", run(lambda: c.set_pipeline(ProcessingPipeline())))
    c._clear_pipeline()
    print(name, "cleared:", run(lambda: call(c)))

print("== 5. pipelines: state set by preceding items gates the marker")


def show(rule):
    out = []

    def walk(name, det):
        for di in det.detection_items:
            if hasattr(di, "detection_items"):
                walk(name + "/" + str(di.item_linking.__name__), di)
            else:
                vals = [getattr(v, "field", None) or str(v) for v in di.value]
                out.append((name, di.field, vals, sorted(di.applied_processing_items)))

    for name, det in rule.detection.detections.items():
        walk(name, det)
    return out


PIPE = """
name: demo
transformations:
{setters}
  - id: map
    type: field_name_mapping
    mapping:
      Image: [proc.image]
      User: [user.a, user.b]
  - id: marker
    type: field_name_suffix
    suffix: ".MARK"
    rule_conditions:
      - type: processing_state
        key: level
        val: {rval}
        op: {rop}
    rule_cond_not: {rnot}
    detection_item_conditions:
      - type: processing_state
        key: mode
        val: strict
        op: {dop}
      - type: processing_item_applied
        processing_item_id: map
    detection_item_cond_op: {dlink}
    field_name_conditions:
      - type: processing_item_applied
        processing_item_id: map
      - type: processing_state
        key: level
        val: 10
        op: lt
    field_name_cond_op: {flink}
    field_name_cond_not: {fnot}
"""
SETTERS = [
    "",
    "  - {id: s1, type: set_state, key: level, val: 3}",
    "  - {id: s1, type: set_state, key: level, val: 3}\n  - {id: s2, type: set_state, key: mode, val: strict}",
    "  - {id: s1, type: set_state, key: level, val: 3}\n  - {id: s1b, type: set_state, key: level, val: 30}\n  - {id: s2, type: set_state, key: mode, val: lax}",
]
for setters, (rval, rop), rnot, dop, dlink, flink, fnot in itertools.product(
    SETTERS,
    [(3, "eq"), (3, "gt"), (2.5, "gte"), (3, "ne")],
    ["false", "true"],
    ["eq", "ne"],
    ["and", "or"],
    ["and", "or"],
    ["false", "true"],
):
    y = PIPE.format(
        setters=setters, rval=rval, rop=rop, rnot=rnot, dop=dop, dlink=dlink, flink=flink, fnot=fnot
    )
    pipeline = ProcessingPipeline.from_yaml(y)
    rule = SigmaRule.from_yaml(RULE_YAML)
    res = run(lambda: pipeline.apply(rule) and None)
    print(
        (len(setters.splitlines()), rval, rop, rnot, dop, dlink, flink, fnot),
        res,
        pipeline.applied,
        sorted(pipeline.applied_ids),
        sorted(pipeline.state.items()),
        rule.fields,
        {k: sorted(v) for k, v in sorted(pipeline.field_name_applied_ids.items())},
        show(rule),
    )

print("== 6. invalid op / type mismatch surfacing through a pipeline, state passed to apply()")
for op, val, state in [("between", 1, {"level": 1}), ("between", 1, None), ("gt", "x", {"level": 1}), ("lte", 1, {"level": 1})]:
    item = ProcessingItem(
        identifier="marker",
        transformation=AddFieldnameSuffixTransformation(".M"),
        rule_conditions=[RuleProcessingStateCondition("level", val, op)],
    )
    pipeline = ProcessingPipeline([item])
    rule = SigmaRule.from_yaml(RULE_YAML)
    print(op, val, state, run(lambda: pipeline.apply(rule, state) and None), pipeline.applied, show(rule)[0])

print("== 7. from_dict errors")
for cdef in [
    {"type": "processing_state", "key": "a"},
    {"type": "processing_state", "key": "a", "val": 1, "op": "nope"},
    {"type": "processing_state", "key": "a", "val": 1, "extra": 2},
    {"type": "processing_item_applied"},
]:
    for group in ("rule_conditions", "detection_item_conditions", "field_name_conditions"):
        try:
            it = ProcessingItem.from_dict({"type": "set_state", "key": "x", "val": 1, group: [cdef]})
            print(group, cdef, "-> ok", getattr(it, group))
        except SigmaError as e:
            print(group, cdef, "-> ERR", type(e).__name__, e)
