"""
Demo for t8: serialisation (to_dict / YAML round trip / conversion) of rules after a single
pipeline transformation. Exercises the three apply_detection() loops of
sigma/processing/transformations/base.py (DetectionItemTransformation,
FieldMappingTransformationBase, ValueTransformation) that decide whether original_value of a
replaced detection item is dropped, kept or re-synchronised.
"""

import copy
import sys
from typing import Any

import yaml

from sigma.backends.test import TextQueryTestBackend
from sigma.exceptions import SigmaError
from sigma.processing.conditions import (
    ContainsWildcardCondition,
    IncludeFieldCondition,
    MatchStringCondition,
)
from sigma.processing.pipeline import ProcessingItem, ProcessingPipeline
from sigma.processing.transformations import (
    AddFieldnamePrefixTransformation,
    AddFieldnameSuffixTransformation,
    CaseTransformation,
    ConvertTypeTransformation,
    DropDetectionItemTransformation,
    FieldFunctionTransformation,
    FieldMappingTransformation,
    FieldPrefixMappingTransformation,
    HashesFieldsDetectionItemTransformation,
    MapStringTransformation,
    RegexTransformation,
    ReplaceStringTransformation,
    SetValueTransformation,
    ValueListPlaceholderTransformation,
    WildcardPlaceholderTransformation,
)
from sigma.processing.transformations.base import DetectionItemTransformation
from sigma.rule import SigmaDetection, SigmaDetectionItem, SigmaRule
from sigma.types import SigmaString

RULES = {
    "plain": """
title: Plain
id: 5013332f-8a70-4a04-bcc1-06a98a2cb8f1
status: test
date: 2024/01/31
modified: 2024-02-01
tags:
    - attack.t1059
logsource:
    category: process_creation
    product: windows
fields:
    - Image
    - CommandLine
detection:
    sel:
        Image: 'C:\\Windows\\cmd.exe'
        CommandLine: foo bar
        EventID: 4688
    condition: sel
""",
    "modifiers": """
title: Modifiers
logsource:
    category: test
detection:
    sel:
        CommandLine|contains|all:
            - foo
            - 'b*r'
        Image|endswith: '\\cmd.exe'
        User|re: '^adm.*'
        Path|cased: 'C:\\Temp'
        Flag: true
        Nothing: null
        Count|gte: 5
    condition: sel
""",
    "keywords": """
title: Keywords
logsource:
    category: test
detection:
    keywords:
        - foo
        - 'bar*'
        - 123
    kwmod:
        '|contains': secret
    condition: keywords or kwmod
""",
    "nested": """
title: Nested
logsource:
    product: windows
detection:
    sel:
        - Image: foo.exe
          CommandLine|contains: evil
        - ParentImage: parent.exe
          Hashes|contains:
              - 'MD5=0123456789abcdef0123456789abcdef'
              - 'SHA256=0123456789abcdef0123456789abcdef0123456789abcdef0123456789abcdef'
    filter:
        User: SYSTEM
    condition: sel and not filter
""",
    "fieldref_placeholder": """
title: Field reference and placeholder
logsource:
    category: test
detection:
    sel:
        Source|fieldref: Destination
        User|expand: '%admins%'
        Host|expand: 'srv-%unknown%-x'
        Args|windash|contains: ' -enc'
    condition: sel
""",
    "empty_and_odd": """
title: Empty and odd values
logsource:
    category: test
detection:
    sel:
        Empty: ''
        List: []
        Wild: '*'
        Escaped: 'a\\*b\\?c'
        Number: 1.5
    condition: sel
""",
}


class MarkOnlyTransformation(DetectionItemTransformation):
    """Returns None for every item: nothing is replaced."""

    def apply_detection_item(self, detection_item: SigmaDetectionItem) -> None:
        self.processing_item_applied(detection_item)
        return None


class SameItemTransformation(DetectionItemTransformation):
    """Returns the very same item without any change."""

    def apply_detection_item(self, detection_item: SigmaDetectionItem) -> SigmaDetectionItem:
        return detection_item


class SplitTransformation(DetectionItemTransformation):
    """Replaces an item by a nested detection of two fresh items."""

    def apply_detection_item(self, detection_item: SigmaDetectionItem) -> SigmaDetection:
        return SigmaDetection(
            [
                SigmaDetectionItem(detection_item.field, [], [SigmaString("first")]),
                SigmaDetectionItem("Other", [], [SigmaString("second")]),
            ]
        )


def item(transformation: Any, **kwargs: Any) -> ProcessingItem:
    return ProcessingItem(transformation, identifier="demo", **kwargs)


def pipelines() -> dict[str, ProcessingPipeline]:
    p = {
        # FieldMappingTransformationBase loop
        "fieldmap_rename": item(
            FieldMappingTransformation(
                {"Image": "process.executable", "CommandLine": "process.command_line"}
            )
        ),
        "fieldmap_one_to_many": item(
            FieldMappingTransformation({"Image": ["exe", "binary"], "User": ["user", "account"]})
        ),
        "fieldmap_keywords": item(FieldMappingTransformation({None: "message"})),
        "fieldmap_keywords_many": item(FieldMappingTransformation({None: ["message", "raw"]})),
        "fieldmap_fieldref": item(
            FieldMappingTransformation({"Destination": "dst", "Source": "src"})
        ),
        "fieldmap_fieldref_many": item(FieldMappingTransformation({"Destination": ["d1", "d2"]})),
        "fieldmap_conditional": item(
            FieldMappingTransformation({"Image": "exe", "CommandLine": "cmd", "User": "usr"}),
            field_name_conditions=[IncludeFieldCondition(["Image", "User"])],
        ),
        "fieldmap_detitem_cond": item(
            FieldMappingTransformation({"Image": "exe", "CommandLine": "cmd", "Wild": "w"}),
            detection_item_conditions=[ContainsWildcardCondition(cond="any")],
        ),
        "field_prefix_map": item(FieldPrefixMappingTransformation({"Comm": "cmd.", "Pa": "p_"})),
        "field_function": item(
            FieldFunctionTransformation({}, transform_func=lambda f: (f or "kw").lower())
        ),
        "field_function_kw": item(
            FieldFunctionTransformation(
                {}, transform_func=lambda f: (f or "kw").upper(), apply_keyword=True
            )
        ),
        "add_suffix": item(AddFieldnameSuffixTransformation(".keyword")),
        "add_prefix": item(AddFieldnamePrefixTransformation("win.")),
        # ValueTransformation loop
        "replace_string": item(ReplaceStringTransformation("o", "0")),
        "replace_string_nomatch": item(ReplaceStringTransformation("zzzz", "y")),
        "replace_string_cond": item(
            ReplaceStringTransformation("foo", "FOO"),
            detection_item_conditions=[MatchStringCondition(cond="any", pattern="^foo")],
        ),
        "map_string": item(MapStringTransformation({"foo": ["one", "two"], "SYSTEM": "root"})),
        "case_upper": item(CaseTransformation(method="upper")),
        "regex": item(RegexTransformation()),
        "set_value": item(
            SetValueTransformation("fixed"),
            field_name_conditions=[IncludeFieldCondition(["User", "Flag", "Empty"])],
        ),
        "set_value_number": item(
            SetValueTransformation(42), field_name_conditions=[IncludeFieldCondition(["Image"])]
        ),
        "convert_str": item(ConvertTypeTransformation("str")),
        "convert_num": item(ConvertTypeTransformation("num")),
        "placeholder_list": item(ValueListPlaceholderTransformation()),
        "placeholder_wildcard": item(WildcardPlaceholderTransformation()),
        # DetectionItemTransformation loop
        "drop": item(
            DropDetectionItemTransformation(),
            field_name_conditions=[IncludeFieldCondition(["CommandLine", "User", "List"])],
        ),
        "drop_all": item(DropDetectionItemTransformation()),
        "hashes": item(
            HashesFieldsDetectionItemTransformation(
                valid_hash_algos=["MD5", "SHA256"], field_prefix="File"
            ),
            field_name_conditions=[IncludeFieldCondition(["Hashes"])],
        ),
        "mark_only": item(MarkOnlyTransformation()),
        "same_item": item(SameItemTransformation()),
        "same_item_cond": item(
            SameItemTransformation(),
            field_name_conditions=[IncludeFieldCondition(["Image", "Number"])],
        ),
        "split": item(
            SplitTransformation(),
            field_name_conditions=[IncludeFieldCondition(["Image", "Wild"])],
        ),
    }
    res = {name: ProcessingPipeline([pi], vars={"admins": ["adm1", "adm*"]}) for name, pi in p.items()}
    res["none"] = ProcessingPipeline([])
    return res


def describe_items(detection: SigmaDetection, indent: str = "      ") -> None:
    for di in detection.detection_items:
        if isinstance(di, SigmaDetection):
            print(f"{indent}nested:")
            describe_items(di, indent + "  ")
        else:
            original = (
                None if di.original_value is None else [repr(v) for v in di.original_value]
            )
            print(
                f"{indent}field={di.field!r} modifiers={[m.__name__ for m in di.modifiers]} "
                f"value={[repr(v) for v in di.value]} original_value={original} "
                f"original_is_value={di.original_value is di.value} "
                f"applied={sorted(di.applied_processing_items)}"
            )


def attempt(label: str, func: Any) -> Any:
    try:
        result = func()
    except SigmaError as e:
        print(f"    {label}: {type(e).__name__}: {e}")
        return None
    except Exception as e:  # shown as well; must be the same with and without the patch
        print(f"    {label}: UNEXPECTED {type(e).__name__}: {e}")
        return None
    print(f"    {label}: {result!r}")
    return result


def main() -> int:
    for rule_name, rule_yaml in RULES.items():
        for pipeline_name in pipelines():
            pipeline = pipelines()[pipeline_name]
            print(f"=== rule={rule_name} pipeline={pipeline_name}")
            rule = SigmaRule.from_yaml(rule_yaml)
            try:
                pipeline.apply(rule)
            except SigmaError as e:
                print(f"    apply: {type(e).__name__}: {e}")
                continue
            except Exception as e:
                print(f"    apply: UNEXPECTED {type(e).__name__}: {e}")
                continue
            for det_name, detection in rule.detection.detections.items():
                print(f"    detection {det_name}:")
                describe_items(detection)
                attempt(f"to_plain({det_name})", detection.to_plain)
            print(f"    rule applied items: {sorted(rule.applied_processing_items)}")
            d = attempt("to_dict", rule.to_dict)
            if d is None:
                continue
            dumped = attempt("yaml", lambda: yaml.safe_dump(copy.deepcopy(d), sort_keys=True))
            reloaded = attempt("reload dict form", lambda: SigmaRule.from_dict(copy.deepcopy(d)).to_dict())
            print(f"    reload equal: {reloaded == d}")
            if dumped is not None:
                attempt("reload yaml form", lambda: SigmaRule.from_yaml(dumped).to_dict() == d)
            attempt(
                "convert transformed",
                lambda: TextQueryTestBackend().convert_rule(rule),
            )
            attempt(
                "convert reloaded",
                lambda: TextQueryTestBackend().convert_rule(SigmaRule.from_dict(copy.deepcopy(d))),
            )
    return 0


if __name__ == "__main__":
    sys.exit(main())
