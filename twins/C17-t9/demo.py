"""Demo for C17: placeholder expansion through Backend.convert() with various pipelines."""
import sigma.types
from sigma.backends.test import TextQueryTestBackend
from sigma.collection import SigmaCollection
from sigma.exceptions import SigmaError
from sigma.processing.pipeline import ProcessingPipeline, ProcessingItem
from sigma.processing.conditions import IncludeFieldCondition
from sigma.processing.transformations import (
    ValueListPlaceholderTransformation,
    WildcardPlaceholderTransformation,
    QueryExpressionPlaceholderTransformation,
)
from sigma.rule import SigmaRule

print("module:", sigma.types.__file__.replace("/tmp/wt10-C17", "<wt>"))


def rule(detection_yaml: str) -> SigmaCollection:
    return SigmaCollection.from_yaml(
        f"""
title: Test
status: test
logsource:
    category: test
detection:
{detection_yaml}
"""
    )


def pipeline(items, vars=None):
    return ProcessingPipeline(
        name="p",
        priority=10,
        items=[
            ProcessingItem(transformation=t, field_name_conditions=conds or [])
            for t, conds in items
        ],
        vars=vars or {},
    )


DETECTIONS = {
    "single": """
    sel:
        field|expand: 'pre%a%post'
    condition: sel""",
    "two_in_one": """
    sel:
        field|expand: '%a%-%b%'
    condition: sel""",
    "three_mixed": """
    sel:
        field|expand: 'x*%a%?\\%lit\\%%b%_%c%'
    condition: sel""",
    "list_values": """
    sel:
        field|expand:
            - '%a%'
            - 'plain'
            - 'z%b%'
    condition: sel""",
    "contains_all": """
    sel:
        field|contains|all|expand:
            - '%a%'
            - 'fix'
            - '%b%'
    condition: sel""",
    "all_only_plain": """
    sel:
        field|all|expand:
            - 'one'
            - 'two'
    condition: sel""",
    "startswith": """
    sel:
        field|startswith|expand: '%a%\\'
    condition: sel""",
    "endswith": """
    sel:
        field|endswith|expand: '/%b%'
    condition: sel""",
    "keyword": """
    keywords:
        - 'kw%a%'
        - 'other'
    condition: keywords""",
    "keyword_expand": """
    keywords:
        '|expand':
            - 'kw %a% end'
            - '%c%'
    condition: keywords""",
    "regex": """
    sel:
        field|re|expand: 'a.*%a%[0-9]+%b%$'
    condition: sel""",
    "regex_all": """
    sel:
        field|re|expand|all:
            - '^%a%'
            - '%b%$'
    condition: sel""",
    "only_placeholder": """
    sel:
        field|expand: '%a%'
        other|expand: '%b%'
    condition: sel""",
    "nested_and_not": """
    sel:
        f1|expand: '%a%'
    flt:
        f2|contains|expand: '%b%x'
    condition: sel and not flt""",
    "no_placeholder_escaped": """
    sel:
        field|expand: '100\\%a\\% sure'
    condition: sel""",
    "windash_expand": """
    sel:
        field|windash|contains|expand: ' -%a% '
    condition: sel""",
    "numbers_and_null": """
    sel:
        num: 5
        nul: null
        field|expand: '%a%'
    condition: sel""",
}

VARS = [
    {"a": ["A1", "A2"], "b": ["B1"], "c": ["C1", "C2", "C3"]},
    {"a": "solo", "b": [1, 2.5], "c": []},
    {"a": ["w*ld?", "back\\slash"], "b": ["%b%", "sp ace"], "c": ["x"]},
    {"a": ["ok"], "b": [None]},
    {"a": ["ok"], "b": [["nested"]], "c": ["c"]},
    {"a": [], "b": ["B"], "c": ["c"]},
    {},
]

PIPELINES = {}
for n, v in enumerate(VARS):
    PIPELINES[f"valuelist_vars{n}"] = lambda v=v: pipeline(
        [(ValueListPlaceholderTransformation(), None)], v
    )
PIPELINES["none"] = lambda: ProcessingPipeline()
PIPELINES["wildcard"] = lambda: pipeline([(WildcardPlaceholderTransformation(), None)])
PIPELINES["wildcard_include_a"] = lambda: pipeline(
    [(WildcardPlaceholderTransformation(include=["a"]), None)]
)
PIPELINES["wildcard_exclude_a"] = lambda: pipeline(
    [(WildcardPlaceholderTransformation(exclude=["a"]), None)]
)
PIPELINES["valuelist_a_then_wildcard"] = lambda: pipeline(
    [
        (ValueListPlaceholderTransformation(include=["a"]), None),
        (WildcardPlaceholderTransformation(), None),
    ],
    VARS[0],
)
PIPELINES["wildcard_b_then_valuelist"] = lambda: pipeline(
    [
        (WildcardPlaceholderTransformation(include=["b", "c"]), None),
        (ValueListPlaceholderTransformation(exclude=["b"]), None),
    ],
    VARS[0],
)
PIPELINES["queryexpr"] = lambda: pipeline(
    [
        (
            QueryExpressionPlaceholderTransformation(
                expression="{field} lookup {id}", mapping={"a": "list_a"}
            ),
            None,
        )
    ]
)
PIPELINES["queryexpr_include_b_then_valuelist"] = lambda: pipeline(
    [
        (
            QueryExpressionPlaceholderTransformation(
                expression="{field} in {id}", include=["b"]
            ),
            None,
        ),
        (ValueListPlaceholderTransformation(), None),
    ],
    VARS[0],
)
PIPELINES["valuelist_field_cond"] = lambda: pipeline(
    [
        (ValueListPlaceholderTransformation(), [IncludeFieldCondition(fields=["other", "f2"])]),
        (WildcardPlaceholderTransformation(exclude=["b"]), None),
    ],
    VARS[0],
)

for dname, det in DETECTIONS.items():
    for pname, mk in PIPELINES.items():
        try:
            backend = TextQueryTestBackend(mk())
            coll = rule(det)
            out = backend.convert(coll)
            r = coll.rules[0]
            items = []
            for d in r.detection.detections.values():
                for di in d.detection_items:
                    try:
                        plain = di.to_plain()
                    except SigmaError as e:
                        plain = f"<{type(e).__name__}>"
                    items.append(
                        (repr(di.value), plain, sorted(str(p) for p in di.applied_processing_items))
                    )
            print(f"{dname} / {pname}: {out!r}\n    items={items}")
        except Exception as e:
            print(f"{dname} / {pname}: {type(e).__name__}: {e}")

# include and exclude together
for cls in (
    WildcardPlaceholderTransformation,
    ValueListPlaceholderTransformation,
    QueryExpressionPlaceholderTransformation,
):
    try:
        cls(include=["a"], exclude=["b"])
        print(cls.__name__, "accepted")
    except Exception as e:
        print(cls.__name__, type(e).__name__, e)

# direct application to detection items
from sigma.rule import SigmaDetectionItem, SigmaDetection
from sigma.modifiers import SigmaExpandModifier, SigmaAllModifier, SigmaContainsModifier
from sigma.types import SigmaString, SigmaNumber, SigmaExpansion

for mods in ([SigmaExpandModifier], [SigmaExpandModifier, SigmaAllModifier], [SigmaContainsModifier, SigmaExpandModifier, SigmaAllModifier]):
    for vals in (["%a%"], ["%a%", "%b%x", "lit"], ["lit"], ["%u%"], [7, "%c%"]):
        for tname, t in (
            ("wild", WildcardPlaceholderTransformation(exclude=["u"])),
            ("vlist", ValueListPlaceholderTransformation()),
        ):
            t.set_pipeline(ProcessingPipeline(vars=VARS[0]))
            try:
                di = SigmaDetectionItem.from_mapping("f|" + "|".join(m.__name__[5:-8].lower() for m in mods), vals)
                det = SigmaDetection([di])
                res = t.apply_detection_item(di)
                print(tname, [m.__name__ for m in mods], vals, "->", res is di, repr(di.value))
                di2 = SigmaDetectionItem.from_mapping("f|" + "|".join(m.__name__[5:-8].lower() for m in mods), vals)
                det = SigmaDetection([di2, SigmaDetection([SigmaDetectionItem.from_mapping("g|expand", vals)])])
                t.apply_detection(det)
                inner = det.detection_items[1].detection_items[0]
                pl = []
                for item in (det.detection_items[0], inner):
                    try:
                        pl.append(item.to_plain())
                    except SigmaError as e:
                        pl.append(f"<{type(e).__name__}>")
                print("   detection:", repr(det.detection_items[0].value), repr(inner.value), pl)
            except Exception as e:
                print(tname, [m.__name__ for m in mods], vals, type(e).__name__, e)
