"""
Demo for C01 / t8: NOT handling and grouping of TextQueryBackend.

Converts a handful of rules whose conditions contain NOT in all positions (in front of a single
predicate, of AND/OR groups, of in-list shortcuts, of expansions, of deferred parts, of vanished
detections, doubly negated ...) with several backend configurations (plain NOT token, NOT as
not-equals, other precedence, no group expression, no NOT token) and prints everything observed.
"""

from typing import ClassVar

from sigma.backends.test import TextQueryTestBackend
from sigma.collection import SigmaCollection
from sigma.conditions import (
    ConditionAND,
    ConditionFieldEqualsValueExpression,
    ConditionNOT,
    ConditionOR,
    ConditionValueExpression,
)
from sigma.conversion.deferred import DeferredTextQueryExpression
from sigma.conversion.state import ConversionState
from sigma.processing.pipeline import ProcessingItem, ProcessingPipeline
from sigma.processing.transformations import DropDetectionItemTransformation
from sigma.processing.conditions import IncludeFieldCondition
from sigma.types import SigmaExpansion, SigmaNumber, SigmaRegularExpression, SigmaString


class NotEqBackend(TextQueryTestBackend):
    convert_not_as_not_eq: ClassVar[bool] = True
    not_eq_token: ClassVar[str] = "!="
    not_eq_expression: ClassVar[str] = "{field}{backend.not_eq_token}{value}"
    not_startswith_expression: ClassVar[str] = "{field} not_startswith {value}"
    not_endswith_expression: ClassVar[str] = "{field} not_endswith {value}"
    not_contains_expression: ClassVar[str] = "{field} not_contains {value}"
    not_re_expression: ClassVar[str] = "{field}!=/{regex}/"
    not_cidr_expression: ClassVar[str] = "cidrnotmatch('{field}', \"{value}\")"


class OrBindsTighterBackend(TextQueryTestBackend):
    precedence = (ConditionNOT, ConditionOR, ConditionAND)


class NotBindsLoosestBackend(TextQueryTestBackend):
    precedence = (ConditionAND, ConditionOR, ConditionNOT)
    not_token: ClassVar[str] = "NOT"
    token_separator: ClassVar[str] = "  "


class NoInListBackend(TextQueryTestBackend):
    convert_or_as_in: ClassVar[bool] = False
    convert_and_as_in: ClassVar[bool] = False


class NoGroupBackend(TextQueryTestBackend):
    group_expression = None


class NoNotTokenBackend(TextQueryTestBackend):
    not_token = None


class DeferredRe(DeferredTextQueryExpression):
    template = '{field}{op}"{value}"'
    operators = {True: "!=", False: "="}
    default_field = "_"


class DeferredBackend(TextQueryTestBackend):
    re_expression = "{regex}"
    re_escape = tuple()

    def convert_condition_field_eq_val_re(self, cond, state):
        return DeferredRe(state, cond.field, super().convert_condition_field_eq_val_re(cond, state))


class DeferredNotEqBackend(DeferredBackend):
    convert_not_as_not_eq: ClassVar[bool] = True
    not_eq_token: ClassVar[str] = "!="
    not_eq_expression: ClassVar[str] = "{field}{backend.not_eq_token}{value}"
    not_re_expression: ClassVar[str] = "{regex}"


def drop_pipeline():
    return ProcessingPipeline(
        [
            ProcessingItem(
                DropDetectionItemTransformation(),
                field_name_conditions=[IncludeFieldCondition(["dropme"])],
            )
        ]
    )


BACKENDS = [
    ("plain", TextQueryTestBackend, None),
    ("not-as-not-eq", NotEqBackend, None),
    ("or-binds-tighter", OrBindsTighterBackend, None),
    ("not-binds-loosest", NotBindsLoosestBackend, None),
    ("no-in-list", NoInListBackend, None),
    ("no-group-expression", NoGroupBackend, None),
    ("no-not-token", NoNotTokenBackend, None),
    ("deferred-regex", DeferredBackend, None),
    ("deferred-regex-not-eq", DeferredNotEqBackend, None),
    ("drop-pipeline", TextQueryTestBackend, drop_pipeline),
    ("drop-pipeline-not-eq", NotEqBackend, drop_pipeline),
]

DETECTION = """
    sel1:
        fieldA: value1
    sel2:
        fieldB|startswith: val
        fieldC|contains|all:
            - x*y
            - "z?"
    list1:
        - fieldA: a
        - fieldB: 2
    inlist:
        fieldA:
            - v1
            - v2
            - 3
    allin:
        fieldA|all:
            - w1
            - w2
    regex:
        fieldA|re: "ab.*c"
    cidr:
        fieldD|cidr: 10.0.0.0/8
    nulls:
        fieldA: null
        fieldB|exists: false
        fieldC|exists: true
    keywords:
        - kw1
        - 42
    cased:
        fieldA|cased|endswith: VaL
    gone:
        dropme: whatever
    partly:
        dropme: whatever
        fieldA: stays
    empty:
        fieldA: ''
"""

CONDITIONS = [
    "not sel1",
    "not sel2",
    "not list1",
    "not inlist",
    "not allin",
    "not regex",
    "not cidr",
    "not nulls",
    "not keywords",
    "not cased",
    "not empty",
    "not not sel1",
    "not not inlist",
    "not (not sel1)",
    "not not not list1",
    "not (sel1 and sel2)",
    "not (sel1 or sel2)",
    "not sel1 and not sel2",
    "not sel1 or not list1 and sel2",
    "not (sel1 and not (list1 or not inlist))",
    "sel1 and not (regex or cidr)",
    "not regex and sel1",
    "not (regex and sel1)",
    "not (not regex)",
    "not 1 of sel*",
    "not all of sel*",
    "not 1 of them",
    "not gone",
    "not gone and sel1",
    "not (gone or sel1)",
    "not (gone and partly)",
    "not partly",
    "sel1 or not (gone or gone)",
    "not (keywords and not allin) or nulls",
]


def rule_yaml(condition):
    return f"""
title: Demo
status: test
logsource:
    category: test_category
    product: test_product
detection:{DETECTION}
    condition: {condition}
"""


def observe(fn):
    try:
        return repr(fn())
    except Exception as e:  # noqa: BLE001 - the demo prints whatever happens
        return f"{e.__class__.__name__}: {e}"


def snapshot_templates(cls):
    return tuple(
        getattr(cls, name)
        for name in (
            "eq_expression",
            "re_expression",
            "cidr_expression",
            "startswith_expression",
            "endswith_expression",
            "contains_expression",
            "case_sensitive_startswith_expression",
            "case_sensitive_endswith_expression",
            "case_sensitive_contains_expression",
        )
    )


def main():
    for name, backend_class, pipeline in BACKENDS:
        print(f"===== backend configuration: {name}")
        before = snapshot_templates(backend_class)
        for condition in CONDITIONS:
            backend = backend_class(pipeline() if pipeline else None)
            collection = SigmaCollection.from_yaml(rule_yaml(condition))
            print(f"{condition!r:55} -> {observe(lambda: backend.convert(collection))}")
        print("templates unchanged:", snapshot_templates(backend_class) == before)

    # Hand-made condition trees passed directly to the NOT and group converters (no parent links,
    # None arguments, expansions, nested NOT nodes below a NOT node)
    print("===== direct calls")

    def f(field, value):
        leaf = ConditionFieldEqualsValueExpression(field, value)
        leaf.source = None  # normally set while postprocessing the condition
        return leaf

    def v(value):
        leaf = ConditionValueExpression(value)
        leaf.source = None
        return leaf

    trees = {
        "not None": ConditionNOT([None]),
        "not field": ConditionNOT([f("a", SigmaString("x"))]),
        "not value": ConditionNOT([v(SigmaString("x"))]),
        "not num": ConditionNOT([f("a", SigmaNumber(5))]),
        "not expansion": ConditionNOT(
            [f("a", SigmaExpansion([SigmaString("x"), SigmaString("y*"), SigmaNumber(1)]))]
        ),
        "not expansion-of-one": ConditionNOT([f("a", SigmaExpansion([SigmaString("x")]))]),
        "not value-expansion": ConditionNOT(
            [v(SigmaExpansion([SigmaString("x"), SigmaString("y")]))]
        ),
        "not not field": ConditionNOT([ConditionNOT([f("a", SigmaString("x"))])]),
        "not and": ConditionNOT(
            [ConditionAND([f("a", SigmaString("x")), f("b", SigmaString("y"))])]
        ),
        "not or(in)": ConditionNOT(
            [ConditionOR([f("a", SigmaString("x")), f("a", SigmaString("y"))])]
        ),
        "not and(None)": ConditionNOT([ConditionAND([None, None])]),
        "not or(not None)": ConditionNOT([ConditionOR([ConditionNOT([None])])]),
        "not and(empty)": ConditionNOT([ConditionAND([])]),
        "not regex": ConditionNOT([f("a", SigmaRegularExpression("x.*"))]),
        "not not regex": ConditionNOT([ConditionNOT([f("a", SigmaRegularExpression("x.*"))])]),
        "not and(regex)": ConditionNOT([ConditionAND([f("a", SigmaRegularExpression("x.*"))])]),
        "not or(regex,field)": ConditionNOT(
            [ConditionOR([f("a", SigmaRegularExpression("x.*")), f("b", SigmaString("y"))])]
        ),
    }
    for name, backend_class, _ in BACKENDS[:9]:
        backend = backend_class()
        for label, tree in trees.items():
            state = ConversionState()
            print(
                f"{name:22} {label:22} not   -> "
                f"{observe(lambda: backend.convert_condition_not(tree, state))}"
                f" deferred={[(d.finalize_expression()) for d in state.deferred]}"
            )
            state = ConversionState()
            print(
                f"{name:22} {label:22} group -> "
                f"{observe(lambda: backend.convert_condition_group(tree, state))}"
            )
            state = ConversionState()
            print(
                f"{name:22} {label:22} group(arg) -> "
                f"{observe(lambda: backend.convert_condition_group(tree.args[0], state))}"
            )


if __name__ == "__main__":
    main()
