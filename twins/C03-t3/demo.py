"""
Demo for t3: windash placeholder trick and placeholder insertion (expand).

Part 1 builds detection items with SigmaDetectionItem.from_mapping() for values with dashes and
slashes at word and non-word boundaries and percent signs (escaped and not) under chains with
windash and expand. Part 2 calls SigmaString.replace_with_placeholder(), replace_placeholders()
and insert_placeholders() directly, including callbacks that are logged call by call.
"""

import re
import sys

from sigma.exceptions import SigmaError
from sigma.modifiers import SigmaWindowsDashModifier, modifier_mapping
from sigma.rule import SigmaDetectionItem
from sigma.types import (
    Placeholder,
    SigmaCasedString,
    SigmaExpansion,
    SigmaRegularExpression,
    SigmaString,
    SpecialChars,
)


def describe(v):
    """Description of a value that shows class and content, recursively."""
    if isinstance(v, list):
        return "[" + ", ".join(describe(i) for i in v) + "]"
    if isinstance(v, SigmaExpansion):
        return "Expansion" + describe(v.values)
    if isinstance(v, SigmaString):
        return f"{type(v).__name__}({v.s!r}, original={v.original!r})"
    if isinstance(v, SigmaRegularExpression):
        return f"Re({type(v.regexp).__name__}{v.regexp.s!r}, {sorted(f.name for f in v.flags)})"
    return repr(v)


def run(key, value):
    try:
        item = SigmaDetectionItem.from_mapping(key, value)
    except SigmaError as e:
        return f"{type(e).__name__}: {e}"
    return (
        f"value={describe(item.value)} linking={item.value_linking.__name__} "
        f"negated={item.negated} original={describe(item.original_value)}"
    )


VALUES = [
    "-param",
    "/param",
    "cmd -a -b /c",
    "a-b",
    "a/b",
    "path/to/file -x",
    "--double",
    "-/x",
    "/-x",
    "-",
    "/",
    " - ",
    "x -",
    "-1 -_ -ä -é",
    "–param —param",
    "*-a*",
    "?-a",
    "a*-b",
    "\\-a",
    "\\\\-a",
    "-a\\*",
    "",
    "no dashes at all",
    "%var%",
    "-%var% /%var%",
    "%a%%b%",
    "%a% %b% %c%",
    "\\%a%",
    "%a\\%",
    "\\%a\\%",
    "\\\\%a%",
    "100% of %a%",
    "%%",
    "%",
    "% a %",
    "%a\\b%",
    "%a*b%",
    "*%a%?",
    "%_windash%",
    "-x %_windash% /y",
    "%ä-ö%",
    "x\\%y%z%",
    5,
    None,
    True,
    ["-a", "/b", "c"],
    ["%a%", "-b", 1],
    [],
]

CHAINS = [
    ("windash",),
    ("expand",),
    ("windash", "windash"),
    ("expand", "expand"),
    ("windash", "expand"),
    ("expand", "windash"),
    ("windash", "contains"),
    ("windash", "contains", "all"),
    ("all", "windash", "neq"),
    ("expand", "contains"),
    ("contains", "expand"),
    ("windash", "cased"),
    ("cased", "windash"),
    ("cased", "expand"),
    ("windash", "base64offset"),
    ("base64offset", "windash"),
    ("wide", "windash"),
    ("windash", "wide"),
    ("expand", "base64"),
    ("re", "expand"),
    ("re", "i", "expand", "contains"),
    ("re", "windash"),
    ("windash", "re"),
    ("fieldref", "windash"),
    ("windash", "fieldref"),
    ("expand", "fieldref"),
    ("expand", "windash", "startswith", "cased"),
]


def sigma_string(cls, parts):
    s = cls()
    s.s = list(parts)
    return s


W, Q = SpecialChars.WILDCARD_MULTI, SpecialChars.WILDCARD_SINGLE
P = Placeholder


def direct_replace_with_placeholder():
    strings = [
        SigmaString("-a /b c-d"),
        SigmaString("*-a*/b?"),
        SigmaString(""),
        SigmaString.from_str(""),
        SigmaString.from_str("-a*-b"),
        SigmaCasedString("-a -b"),
        sigma_string(SigmaString, ["-a", P("keep"), "", "/b", W, "-", Q, "x-y"]),
        sigma_string(SigmaString, ["abc", "abc"]),
    ]
    patterns = ["\\B[-/]\\b", "abc", "b", "", "^", "$", "x*", "[-/]", "(?=a)", "a|-a", ".+", "(?i)A"]
    for s in strings:
        before = list(s.s)
        for p in patterns:
            r = s.replace_with_placeholder(re.compile(p), "ph")
            print(f"rwp {describe(s)} {p!r} -> {describe(r)} new={r is not s and r.s is not s.s}")
        print("  given string unchanged:", s.s == before)


def logging_callback(log, table):
    def callback(p):
        log.append(p.name)
        yield from table.get(p.name, [p])

    return callback


def direct_replace_placeholders():
    strings = [
        sigma_string(SigmaString, ["a", P("x"), "b", P("y"), "c"]),
        sigma_string(SigmaString, [P("x"), P("x"), P("y")]),
        sigma_string(SigmaCasedString, ["a", P("x"), W, P("none"), "z"]),
        sigma_string(SigmaString, [P("none"), "a", P("x")]),
        sigma_string(SigmaString, [P("x"), "a", P("none")]),
        sigma_string(SigmaString, ["no placeholder", W]),
        sigma_string(SigmaString, []),
        sigma_string(SigmaString, [P("other"), "-", P("x")]),
        sigma_string(SigmaString, [P("bad"), P("x")]),
        sigma_string(SigmaString, [P("x"), P("bad")]),
        sigma_string(SigmaString, [P("none"), P("bad")]),
    ]
    table = {
        "x": ["1", "22", W],
        "y": [SigmaString("s*"), Q, P("kept")],
        "none": [],
        "bad": [5],
    }
    for s in strings:
        log = []
        before = list(s.s)
        try:
            res = s.replace_placeholders(logging_callback(log, table))
            print(f"rp {describe(s)} -> {describe(res)}")
            print("  same object returned:", [r is s for r in res])
        except Exception as e:
            print(f"rp {describe(s)} -> {type(e).__name__}: {e}")
        print("  callback calls:", log, "given string unchanged:", s.s == before)
    regexp = SigmaRegularExpression(sigma_string(SigmaString, ["a", P("x"), ".", W, P("y")]))
    log = []
    print("rp regexp ->", describe(regexp.replace_placeholders(logging_callback(log, table))), log)


def direct_insert_placeholders():
    strings = [
        SigmaString("%a%"),
        SigmaString("x%a%y%b%z"),
        SigmaString("%a%%b%"),
        SigmaString("%a%b%c%"),
        SigmaString("\\%a%b%"),
        SigmaString("\\%a\\%"),
        SigmaString("*%a%*%b?c%"),
        SigmaString("%%%a%%%"),
        SigmaString(""),
        SigmaString.from_str("\\%a% %b% \\\\%c%"),
        SigmaCasedString("%a% and \\%b%"),
        sigma_string(SigmaString, ["%a%", P("old"), "", "%b", "c%", W, "\\%", "\\%%d%"]),
    ]
    for s in strings:
        before = list(s.s)
        r = s.insert_placeholders()
        print(f"ip {describe(s)} -> {describe(r)} new={r is not s} unchanged={s.s == before}")
        rr = r.insert_placeholders()
        print(f"   again -> {describe(rr)}")
    for text in ("%a%", "^%a%.*\\%b%$", "a\\\\%b%", "(%a%|%b%)+"):
        regexp = SigmaRegularExpression(text)
        r = regexp.insert_placeholders()
        print(f"ip regexp {text!r} -> {describe(r)} same={r is regexp}")


def direct_windash():
    item = SigmaDetectionItem("f", [], [SigmaString("x")])
    mod = SigmaWindowsDashModifier(item, [])
    print("mapped:", modifier_mapping["windash"] is SigmaWindowsDashModifier)
    print("dashes:", [hex(ord(c)) for c in (mod.en_dash, mod.em_dash, mod.horizontal_bar)])
    for s in (
        SigmaString("-a"),
        SigmaCasedString("-a /b"),
        sigma_string(SigmaString, ["-a", P("_windash"), P("user"), "/b"]),
        SigmaString("none"),
    ):
        before = list(s.s)
        r = mod.modify(s)
        print(f"windash {describe(s)} -> {describe(r)} unchanged={s.s == before}")
        print("   through apply:", describe(mod.apply(s)))


def main():
    for value in VALUES:
        for chain in CHAINS:
            for field in ("field", ""):
                key = "|".join((field,) + chain)
                print(f"{key!r} {value!r} -> {run(key, value)}")
    direct_replace_with_placeholder()
    direct_replace_placeholders()
    direct_insert_placeholders()
    direct_windash()
    return 0


if __name__ == "__main__":
    sys.exit(main())
