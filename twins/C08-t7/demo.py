"""
Demo for property C08 (a failing rule never changes other rules' output; every query is
accounted for), with the focus on the finalisation path: Backend.finalize_query (called per
query inside the per-rule try/except of Backend.convert_rule), Backend.finalize (called on the
flat query list of Backend.convert) and ProcessingPipeline.finalize.

Prints everything it observes; the output has to be identical before and after the refactoring.
"""

import sys
import traceback
from typing import ClassVar

from sigma.backends.test import TextQueryTestBackend
from sigma.collection import SigmaCollection
from sigma.exceptions import SigmaError
from sigma.processing.finalization import (
    ConcatenateQueriesFinalizer,
    Finalizer,
    JSONFinalizer,
)
from sigma.processing.pipeline import ProcessingPipeline, QueryPostprocessingItem

RULES = {
    "good1": """
title: Good one
id: 00000000-0000-0000-0000-000000000001
logsource: {category: test}
detection:
    sel: {fieldA: valueA, fieldB|contains: foo}
    condition: sel
""",
    "good2": """
title: Good two conditions
id: 00000000-0000-0000-0000-000000000002
logsource: {category: test}
detection:
    sel1: {fieldA: 1}
    sel2: {fieldB|re: 'a.*b'}
    condition:
        - sel1
        - sel1 and not sel2
""",
    "good3": """
title: Good three
id: 00000000-0000-0000-0000-000000000003
logsource: {category: test}
detection:
    sel: {fieldC|startswith: [x, y, z]}
    keywords: [needle, 'hay stack']
    condition: sel or keywords
""",
    "fail_pipeline": """
title: Fails in pipeline
id: 00000000-0000-0000-0000-0000000000f1
status: deprecated
logsource: {category: test}
detection:
    sel: {fieldZ: doomed}
    condition: sel
""",
    "fail_placeholder": """
title: Unresolved placeholder
id: 00000000-0000-0000-0000-0000000000f2
logsource: {category: test}
detection:
    sel: {fieldA|expand: '%nobody_defines_this%'}
    condition: sel
""",
    "fail_null": """
title: Value type the backend does not support
id: 00000000-0000-0000-0000-0000000000f3
logsource: {category: test}
detection:
    sel: {fieldA: null, fieldB: x}
    condition: sel
""",
    "fail_condition": """
title: Condition names a missing detection
id: 00000000-0000-0000-0000-0000000000f4
logsource: {category: test}
detection:
    sel: {fieldA: valueA}
    condition:
        - sel
        - sel and missing
""",
}

PIPELINE_YAML = """
name: demo
priority: 10
vars:
    index: idx
transformations:
    - id: set_index
      type: set_state
      key: index
      val: demo_index
    - id: doom
      type: rule_failure
      message: deprecated rules are not converted
      rule_conditions:
          - type: contains_detection_item
            field: fieldZ
            value: doomed
postprocessing:
    - id: embed
      type: embed
      prefix: "<<"
      suffix: ">>"
"""


class NoNullBackend(TextQueryTestBackend):
    """Test backend without null support and with a format that lacks its query finalizer."""

    field_null_expression: ClassVar[None] = None
    formats: ClassVar[dict[str, str]] = {
        **TextQueryTestBackend.formats,
        "half": "Announced format without finalize_query_half",
    }

    def finalize_output_half(self, queries):
        return ["half:" + str(q) for q in queries]


class UpperFinalizer(Finalizer):
    def apply(self, queries):
        return [q.upper() if isinstance(q, str) else q for q in queries]


class CountingFinalizer(Finalizer):
    calls: ClassVar[list] = []

    def apply(self, queries):
        CountingFinalizer.calls.append(repr(queries))
        return queries


def collection(names):
    return SigmaCollection.from_yaml("---".join(RULES[n] for n in names))


def pipeline(kind):
    if kind == "none":
        return None
    p = ProcessingPipeline.from_yaml(PIPELINE_YAML)
    if kind == "finalizers":
        p = p + ProcessingPipeline(
            finalizers=[
                CountingFinalizer(),
                UpperFinalizer(),
                CountingFinalizer(),
                ConcatenateQueriesFinalizer(separator=" ## ", prefix="{", suffix="}"),
                CountingFinalizer(),
            ],
        )
    elif kind == "json":
        p = p + ProcessingPipeline(finalizers=[JSONFinalizer()])
    return p


def describe_error(e):
    return f"{type(e).__name__}: {e} | args={e.args!r}"


def run(names, kind, collect, fmt, backend_cls=NoNullBackend):
    print(f"--- rules={names} pipeline={kind} collect={collect} format={fmt!r}")
    backend = backend_cls(pipeline(kind), collect_errors=collect)
    coll = collection(names)
    try:
        result = backend.convert(coll, fmt)
        print("  result:", repr(result))
    except Exception as e:  # noqa: BLE001 - everything is of interest here
        print("  raised:", describe_error(e))
        result = None
    print("  errors:", [(r.title, describe_error(e)) for r, e in backend.errors])
    for rule in coll.rules:
        print(
            "  rule",
            repr(rule.title),
            "stored:",
            repr(rule._conversion_result),
            "states:",
            None if rule._conversion_states is None else len(rule._conversion_states),
        )
    if backend.last_processing_pipeline is not None:
        print("  applied_ids:", sorted(backend.last_processing_pipeline.applied_ids))

    # the same rules converted alone with fresh objects
    alone = []
    for name in names:
        fresh_backend = backend_cls(pipeline(kind), collect_errors=True)
        try:
            alone.append(
                (name, fresh_backend.convert_rule(collection([name]).rules[0], fmt))
            )
        except Exception as e:  # noqa: BLE001
            alone.append((name, "raised " + describe_error(e)))
        if fresh_backend.errors:
            alone.append(
                (name, "errors " + repr([describe_error(e) for _, e in fresh_backend.errors]))
            )
    print("  alone:", alone)
    return result


def main():
    all_good = ["good1", "good2", "good3"]
    mixed = [
        "fail_pipeline",
        "good1",
        "fail_placeholder",
        "good2",
        "fail_null",
        "good3",
        "fail_condition",
    ]
    for fmt in (None, "default", "test", "state", "str", "bytes", "list_of_dict"):
        run(all_good, "none", False, fmt)
        run(mixed, "plain", True, fmt)
    for kind in ("none", "plain", "finalizers", "json"):
        run(all_good, kind, False, None)
        run(mixed, kind, True, "test")
        run(list(reversed(mixed)), kind, True, "state")
    print("counting finalizer calls:", CountingFinalizer.calls)

    # every single failing rule, in first/middle/last position, with and without collecting
    for bad in ("fail_pipeline", "fail_placeholder", "fail_null", "fail_condition"):
        for names in ([bad, "good1", "good2"], ["good1", bad, "good2"], ["good1", "good2", bad]):
            run(names, "plain", True, "default")
            run(names, "plain", False, "default")
        run([bad], "finalizers", True, "str")

    # formats the backend does not know / announces without implementing them
    for fmt in ("nonsense", "", "half", "Default", 42):
        for collect in (True, False):
            run(["good1", "fail_null", "good2"], "plain", collect, fmt)
    run([], "finalizers", True, "nonsense")
    run([], "finalizers", False, None)

    # direct calls of the dispatching methods
    backend = NoNullBackend(pipeline("finalizers"))
    backend.init_processing_pipeline("test")
    rule = collection(["good1"]).rules[0]
    for fmt in ("default", "test", "str", "half", "nope", None):
        for label, call in (
            ("finalize_query", lambda: backend.finalize_query(rule, "q", 0, None, fmt)),
            ("finalize", lambda: backend.finalize(["q1", "q2"], fmt)),
        ):
            try:
                print("direct", label, repr(fmt), "->", repr(call()))
            except Exception as e:  # noqa: BLE001
                print("direct", label, repr(fmt), "raised", describe_error(e))
    uninitialised = NoNullBackend()
    for label, call in (
        ("finalize_query", lambda: uninitialised.finalize_query(rule, "q", 0, None, "test")),
        ("finalize", lambda: uninitialised.finalize(["q"], "test")),
        ("finalize unknown", lambda: uninitialised.finalize(["q"], "zzz")),
    ):
        try:
            print("uninitialised", label, "->", repr(call()))
        except Exception as e:  # noqa: BLE001
            print("uninitialised", label, "raised", describe_error(e))

    # ProcessingPipeline.finalize on its own
    for finalizers in (
        [],
        [UpperFinalizer()],
        [ConcatenateQueriesFinalizer(separator="|"), JSONFinalizer()],
        [JSONFinalizer(), ConcatenateQueriesFinalizer(separator="|")],
    ):
        p = ProcessingPipeline(finalizers=finalizers)
        for output in (["a", "b"], [], "xyz", None):
            try:
                print("pipeline.finalize", [type(f).__name__ for f in finalizers], repr(output),
                      "->", repr(p.finalize(output)))
            except Exception as e:  # noqa: BLE001
                print("pipeline.finalize", [type(f).__name__ for f in finalizers], repr(output),
                      "raised", describe_error(e))


if __name__ == "__main__":
    try:
        main()
    except Exception:
        traceback.print_exc()
        sys.exit(1)
    sys.exit(0)
