"""
Demo for property C15: converting a rule gives the same result whatever was converted before.

Exercises the per-rule tracking attributes of ProcessingPipeline (applied, applied_ids,
field_name_applied_ids, field_mappings, state), the defaults they get in a new pipeline and the
reset at the start of apply(), directly and through a backend after different histories.
"""

from collections import defaultdict
from dataclasses import fields

import sigma.conditions
from sigma.backends.test import TextQueryTestBackend
from sigma.collection import SigmaCollection
from sigma.exceptions import SigmaError
from sigma.modifiers import SigmaModifier
from sigma.processing.pipeline import ProcessingItem, ProcessingPipeline
from sigma.processing.tracking import FieldMappingTracking
from sigma.processing.transformations import FieldMappingTransformation, SetStateTransformation
from sigma.rule import SigmaRule

PIPELINE_YAML = """
name: demo
priority: 10
vars:
  greeting: hello
transformations:
  - id: map_a
    type: field_name_mapping
    mapping:
      fieldA: [mappedA1, mappedA2]
      fieldB: mappedB
    rule_conditions:
      - type: logsource
        category: test
  - id: state_win
    type: set_state
    key: index
    val: windows
    rule_conditions:
      - type: logsource
        product: windows
  - id: suffix_mapped
    type: field_name_suffix
    suffix: ".keyword"
    field_name_conditions:
      - type: processing_item_applied
        processing_item_id: map_a
  - id: after_state
    type: add_condition
    conditions:
      idx: win
    rule_conditions:
      - type: processing_item_applied
        processing_item_id: state_win
  - id: fail_bad
    type: detection_item_failure
    message: bad field is not supported
    field_name_conditions:
      - type: include_fields
        fields:
          - badfield
  - id: nested
    type: nest
    items:
      - id: nested_state
        type: set_state
        key: nested
        val: "yes"
        rule_conditions:
          - type: processing_state
            key: index
            val: windows
postprocessing:
  - id: embed_win
    type: embed
    prefix: "[win] "
    rule_conditions:
      - type: processing_state
        key: index
        val: windows
"""


def rule_yaml(title, product, detection, condition="sel", extra=""):
    return f"""
title: {title}
status: test
logsource:
    category: test
    product: {product}
detection:
{detection}
    condition: {condition}
{extra}
"""


RULES = {
    "win_a": rule_yaml("win a", "windows", "    sel:\n        fieldA: valueA\n        fieldC: c"),
    "lin_a": rule_yaml("lin a", "linux", "    sel:\n        fieldA: valueA\n        fieldB: 5"),
    "bad": rule_yaml("bad", "windows", "    sel:\n        fieldA: x\n        badfield: y"),
    "neg": rule_yaml(
        "neg",
        "linux",
        "    sel:\n        fieldA|contains: foo\n    flt:\n        fieldB|startswith: bar",
        "sel and not flt",
    ),
    "multi": (
        "title: multi\nstatus: test\nlogsource:\n    category: test\n    product: windows\n"
        "detection:\n    sel:\n        fieldA: 1\n    other:\n        fieldX|re: 'a.*b'\n"
        "    condition:\n        - sel\n        - sel or other\n"
    ),
    "nocat": (
        "title: nocat\nstatus: test\nlogsource:\n    product: windows\n"
        "detection:\n    sel:\n        fieldA: valueA\n        fieldB|exists: false\n    condition: sel\n"
    ),
    "parse_error": rule_yaml("perr", "windows", "    sel:\n        fieldA: v", "sel and and"),
    "unknown_ref": rule_yaml("uref", "windows", "    sel:\n        fieldA: v", "sel and nope"),
}
PROBE = rule_yaml(
    "probe", "windows", "    sel:\n        fieldA: valueA\n        fieldB: 5\n    other:\n        fieldZ: z", "sel or other"
)


def describe_pipeline(p):
    return {
        "applied": list(p.applied),
        "applied_ids": sorted(p.applied_ids),
        "field_name_applied_ids": {k: sorted(v) for k, v in sorted(p.field_name_applied_ids.items())},
        "field_name_applied_ids_type": type(p.field_name_applied_ids).__name__,
        "field_mappings": {str(k): sorted(v) for k, v in sorted(p.field_mappings.items(), key=str)},
        "target_fields": {
            str(k): sorted(map(str, v)) for k, v in sorted(p.field_mappings.target_fields.items(), key=str)
        },
        "field_mappings_type": type(p.field_mappings).__name__,
        "state": dict(sorted(p.state.items())),
        "state_type": type(p.state).__name__,
    }


def convert(backend, yaml_text, single=False, fmt=None):
    try:
        if single:
            rule = SigmaRule.from_yaml(yaml_text)
            return ("ok", backend.convert_rule(rule, fmt))
        return ("ok", backend.convert(SigmaCollection.from_yaml(yaml_text), fmt))
    except Exception as e:  # noqa: printing class and message is the point
        return ("error", type(e).__name__, str(e))


def fresh_probe():
    sigma.conditions._parse_condition_string.cache_clear()
    SigmaModifier._type_hint_cache.clear()
    backend = TextQueryTestBackend(ProcessingPipeline.from_yaml(PIPELINE_YAML))
    result = convert(backend, PROBE)
    return result, describe_pipeline(backend.last_processing_pipeline)


def section(title):
    print()
    print("=" * 8, title)


# ---------------------------------------------------------------------------------------------
section("1. defaults of the per-rule attributes of new pipelines")
p1 = ProcessingPipeline()
p2 = ProcessingPipeline.from_yaml(PIPELINE_YAML)
for name, p in (("empty", p1), ("yaml", p2)):
    print(name, describe_pipeline(p))
print("distinct objects between instances:", all(
    getattr(p1, a) is not getattr(p2, a)
    for a in ("applied", "applied_ids", "field_name_applied_ids", "field_mappings", "state")
))
print("missing key of field_name_applied_ids gives", p1.field_name_applied_ids["nokey"], "- keys now", list(p1.field_name_applied_ids))
for f in fields(ProcessingPipeline):
    if not f.init:
        print("field", f.name, "init", f.init, "compare", f.compare, "repr", f.repr, "default value", repr(f.default_factory()))
print("repr:", repr(ProcessingPipeline(name="r")))
print("equal despite different tracking:", p1 == ProcessingPipeline())

# ---------------------------------------------------------------------------------------------
section("2. apply() directly: reset, identity of replaced objects, state argument")
pipeline = ProcessingPipeline.from_yaml(PIPELINE_YAML)
seen = []
for key in ("win_a", "lin_a", "nocat", "neg", "multi", "win_a"):
    old = (pipeline.applied, pipeline.applied_ids, pipeline.field_name_applied_ids, pipeline.field_mappings, pipeline.state)
    old_snapshot = repr(old)
    rule = SigmaRule.from_yaml(RULES[key])
    returned = pipeline.apply(rule)
    new = (pipeline.applied, pipeline.applied_ids, pipeline.field_name_applied_ids, pipeline.field_mappings, pipeline.state)
    print(key, "returned same rule:", returned is rule)
    print("   ", describe_pipeline(pipeline))
    print("    all five replaced by new objects:", all(o is not n for o, n in zip(old, new)),
          "| old objects untouched:", repr(old) == old_snapshot)
    seen.append((key, describe_pipeline(pipeline)))
print("same rule first and last gives same tracking:", seen[0][1] == seen[-1][1])

given = {"index": "preset", "other": [1, 2]}
rule = SigmaRule.from_yaml(RULES["lin_a"])
pipeline.apply(rule, given)
print("state from dict argument:", pipeline.state, "| copy:", pipeline.state is not given, "| argument unchanged:", given)
pipeline.apply(SigmaRule.from_yaml(RULES["lin_a"]), {})
print("state from empty dict argument:", pipeline.state)
pipeline.apply(SigmaRule.from_yaml(RULES["lin_a"]), [("k", "v"), ("k2", "v2")])
print("state from list of pairs:", pipeline.state, type(pipeline.state).__name__)
pipeline.apply(SigmaRule.from_yaml(RULES["lin_a"]), defaultdict(list, a=[1]))
print("state from defaultdict:", pipeline.state, type(pipeline.state).__name__)
pipeline.apply(SigmaRule.from_yaml(RULES["lin_a"]))
print("state without argument afterwards:", pipeline.state)

pipeline.apply(SigmaRule.from_yaml(RULES["win_a"]))
before = describe_pipeline(pipeline)
try:
    pipeline.apply(SigmaRule.from_yaml(RULES["lin_a"]), 5)
except Exception as e:
    print("state argument 5:", type(e).__name__, e)
after = describe_pipeline(pipeline)
print("after the failed apply: tracking reset", {k: after[k] for k in ("applied", "applied_ids", "field_name_applied_ids", "field_mappings")},
      "| state kept from before:", after["state"] == before["state"], after["state"])

try:
    pipeline.apply(SigmaRule.from_yaml(RULES["bad"]))
except SigmaError as e:
    print("failing rule:", type(e).__name__, e)
print("    after failure:", describe_pipeline(pipeline))
pipeline.apply(SigmaRule.from_yaml(RULES["lin_a"]))
print("    next rule:", describe_pipeline(pipeline))

# ---------------------------------------------------------------------------------------------
section("3. tracking helpers")
tp = ProcessingPipeline(
    [
        ProcessingItem(FieldMappingTransformation({"a": ["b", "c"]}), identifier="first"),
        ProcessingItem(FieldMappingTransformation({"b": "d", "a": "never"}), identifier="second"),
        ProcessingItem(SetStateTransformation("k", "v")),
    ]
)
r = SigmaRule.from_yaml(
    "title: t\nlogsource:\n  category: test\nfields: [a, x]\ndetection:\n  sel:\n    a: 1\n    x: 2\n  condition: sel\n"
)
tp.apply(r)
print(describe_pipeline(tp))
print("fields:", r.fields)
print("was d processed by first/second:", tp.field_was_processed_by("d", "first"), tp.field_was_processed_by("d", "second"))
print("None field:", tp.field_was_processed_by(None, "first"))
print("unknown field:", tp.field_was_processed_by("unknown", "first"), "-> keys", sorted(tp.field_name_applied_ids))
tp.track_field_processing_items("same", ["same"], "idX")
tp.track_field_processing_items("src", ["d1", "d2"], None)
tp.track_field_processing_items("d1", ["d1", "d3"], "idY")
print({k: sorted(v) for k, v in sorted(tp.field_name_applied_ids.items())})
tp.apply(r)
print("after next apply:", describe_pipeline(tp))

# ---------------------------------------------------------------------------------------------
section("4. probe after histories vs fresh")
expected, expected_tracking = fresh_probe()
print("fresh:", expected)
print("fresh tracking:", expected_tracking)

HISTORIES = [
    [("coll", "win_a")],
    [("coll", "lin_a"), ("single", "neg"), ("coll", "multi")],
    [("coll", "bad"), ("single", "bad"), ("coll", "nocat")],
    [("coll", "parse_error"), ("coll", "unknown_ref"), ("init", None), ("coll", "neg")],
    [("second_backend", "lin_a"), ("coll", "win_a"), ("fmt", "multi"), ("second_backend", "bad")],
    [("single", "win_a"), ("init", None), ("single", "lin_a"), ("collect", "bad"), ("coll", "neg"),
     ("fmt", "nocat"), ("second_backend", "multi"), ("coll", "multi")],
]
for number, history in enumerate(HISTORIES):
    shared = ProcessingPipeline.from_yaml(PIPELINE_YAML)
    backend = TextQueryTestBackend(shared)
    print("history", number)
    for op, key in history:
        if op == "coll":
            out = convert(backend, RULES[key])
        elif op == "single":
            out = convert(backend, RULES[key], single=True)
        elif op == "fmt":
            out = convert(backend, RULES[key], fmt="test")
        elif op == "init":
            backend.init_processing_pipeline()
            out = ("init",)
        elif op == "collect":
            cb = TextQueryTestBackend(shared, collect_errors=True)
            out = convert(cb, RULES[key]) + ([(type(e).__name__, str(e)) for _, e in cb.errors],)
        elif op == "second_backend":
            out = convert(TextQueryTestBackend(shared), RULES[key])
        print("   ", op, key, "->", out)
    got = convert(backend, PROBE)
    tracking = describe_pipeline(backend.last_processing_pipeline)
    print("    probe:", got)
    print("    probe equals fresh:", got == expected, "| tracking equals fresh:", tracking == expected_tracking)
    assert got == expected and tracking == expected_tracking

print()
print("done")
