"""Demo for C19 / t3: IdentifierUniquenessValidator / DuplicateTitleValidator / DuplicateFilenameValidator
(sigma/validators/core/metadata.py).

Validates collections with ids/titles/filenames shared in several multiplicities, in several rule
orders, prints the issue groups, the accumulated validator state before/after finalize() and checks
that rules are left unchanged.
"""
import copy
import random
import sys
from pathlib import Path

from sigma.backends.test import TextQueryTestBackend
from sigma.correlations import SigmaCorrelationRule
from sigma.exceptions import SigmaRuleLocation
from sigma.rule import SigmaRule
from sigma.validation import SigmaValidator
from sigma.validators.core.metadata import (
    DuplicateFilenameValidator,
    DuplicateReferencesValidator,
    DuplicateTitleValidator,
    FilenameLengthValidator,
    IdentifierExistenceValidator,
    IdentifierUniquenessValidator,
)

I1 = "aaaaaaaa-aaaa-4aaa-8aaa-aaaaaaaaaaaa"
I2 = "bbbbbbbb-bbbb-4bbb-8bbb-bbbbbbbbbbbb"
I3 = "cccccccc-cccc-4ccc-8ccc-cccccccccccc"
I4 = "dddddddd-dddd-4ddd-8ddd-dddddddddddd"

# (label, id, title, source path or None)
SPECS = [
    ("r0", I1, "Alpha", "/rules/a/alpha.yml"),
    ("r1", I1, "Alpha", "/rules/b/alpha.yml"),
    ("r2", I1, "Beta", "/rules/c/alpha.yml"),
    ("r3", I2, "Beta", "/rules/a/beta.yml"),
    ("r4", I2.upper(), "beta", "/rules/a/beta.yml"),  # same file listed twice: same path
    ("r5", None, "Gamma", "/rules/a/gamma.yml"),
    ("r6", None, "Gamma", None),
    ("r7", I3, "", "/rules/a/empty_title.yml"),
    ("r8", I4, "", "/other/Gamma.yml"),
    ("r9", None, "Delta", "/other/sub/../gamma.yml"),
    ("r10", I3, "Delta ", "relative/gamma.yml"),
]


def make_rule(label, id_, title, path):
    d = {
        "title": title,
        "description": label,
        "logsource": {"category": "test"},
        "references": ["https://example.org/a", "https://example.org/a", "https://example.org/b"]
        if label in ("r3", "r8")
        else ["https://example.org/" + label],
        "detection": {"sel": {"field": label}, "condition": "sel"},
    }
    if id_ is not None:
        d["id"] = id_
    rule = SigmaRule.from_dict(d)
    if path is not None:
        rule.source = SigmaRuleLocation(Path(path))
    return rule


CORRELATION = f"""
title: Alpha
id: {I4}
correlation:
    type: event_count
    rules:
        - whatever
    group-by:
        - user
    timespan: 5m
    condition:
        gte: 10
"""


def label(rule):
    return getattr(rule, "description", None) or "corr"


def issue_repr(issue, sort_group=False):
    group = [label(r) for r in issue.rules]
    if sort_group:
        group = sorted(group)
    extra = sorted((k, str(v)) for k, v in vars(issue).items() if k != "rules")
    return (type(issue).__name__, tuple(group), tuple(extra))


def state(validator):
    out = {}
    for k, v in sorted(vars(validator).items()):
        if k == "rule":
            continue
        out[k] = (
            type(v).__name__,
            [
                (str(key), sorted(val) if isinstance(val, set) else [label(r) for r in val])
                for key, val in v.items()
            ],
        )
    return out


def snapshot(rules):
    backend = TextQueryTestBackend()
    res = []
    for r in rules:
        if isinstance(r, SigmaCorrelationRule):
            res.append((r.to_dict(), None))
        else:
            res.append((r.to_dict(), backend.convert_rule(copy.deepcopy(r))))
    return res


def main():
    rules = [make_rule(*spec) for spec in SPECS]
    corr = SigmaCorrelationRule.from_yaml(CORRELATION)
    corr.source = SigmaRuleLocation(Path("/corr/alpha.yml"))
    rules.append(corr)
    before = snapshot(rules)

    classes = [IdentifierUniquenessValidator, DuplicateTitleValidator, DuplicateFilenameValidator]

    # 1. the validators one by one, with state before/after finalize, finalize twice, then reuse
    for cls in classes:
        v = cls()
        print("##", cls.__name__, "initial state", state(v))
        for r in rules:
            res = v.validate(r)
            assert res == [], res
        print("   state after validate:")
        for k, val in state(v).items():
            print("     ", k, val)
        tables = [lst for table in vars(v).values() if isinstance(table, dict) for lst in table.values()]
        first = v.finalize()
        # the issues carry the very list objects accumulated in the tables
        print("   issues alias table lists:", all(any(i.rules is lst for lst in tables) for i in first))
        print("   finalize:")
        for i in first:
            print("     ", issue_repr(i))
        print("   issue rule lists are lists:", all(type(i.rules) is list for i in first))
        print("   state after finalize:", state(v))
        print("   finalize again:", [issue_repr(i) for i in v.finalize()])
        # reuse of the same instance on a sub collection
        for r in rules[:3]:
            v.validate(r)
        print("   reuse on r0-r2:", [issue_repr(i) for i in v.finalize()])
        print("   empty run:", cls().finalize())

    # 2. through SigmaValidator in many rule orders: same multiset of issues (groups as sets)
    all_classes = classes + [
        IdentifierExistenceValidator,
        DuplicateReferencesValidator,
        FilenameLengthValidator,
    ]
    reference = None
    rnd = random.Random(19)
    orders = [list(range(len(rules))), list(reversed(range(len(rules))))]
    for _ in range(6):
        o = list(range(len(rules)))
        rnd.shuffle(o)
        orders.append(o)
    for o in orders:
        issues = SigmaValidator(all_classes).validate_rules(rules[i] for i in o)
        multiset = sorted(issue_repr(i, sort_group=True) for i in issues)
        if reference is None:
            reference = multiset
            print("## issues over the whole collection (groups sorted):")
            for m in multiset:
                print("  ", m)
        print("order", o, "same multiset:", multiset == reference, "count", len(issues))
        # within a group the rules appear in validation order
        groups = [issue_repr(i) for i in issues if len(i.rules) > 1]
        print("   groups:", [(g[0], g[1]) for g in groups])

    # 3. multiplicities: k rules sharing everything, k = 1..4
    for k in range(1, 5):
        same = [make_rule(f"s{j}", I1, "Same", f"/dir{j}/same_name.yml") for j in range(k)]
        issues = SigmaValidator(classes).validate_rules(iter(same))
        print("k =", k, [issue_repr(i) for i in issues])

    # 4. same rule object validated twice
    v = SigmaValidator(classes)
    issues = v.validate_rules(iter([rules[0], rules[0]]))
    print("same object twice:", [issue_repr(i) for i in issues])

    print("rules unchanged (to_dict + queries):", before == snapshot(rules))


if __name__ == "__main__":
    main()
    sys.exit(0)
