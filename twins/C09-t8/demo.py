"""
Demo for property C09 (rule references resolve the same way whatever the document order).

Exercises Backend.convert(), SigmaCollection.load_ruleset() (with and without hooks) and
SigmaCollection.merge() over permutations of rule sets and prints everything observed.
"""
import itertools
import random
import sys
import tempfile
from pathlib import Path

import yaml

import sigma.types
from sigma.backends.test import TextQueryTestBackend
from sigma.collection import SigmaCollection
from sigma.exceptions import SigmaError


def plain(title, name=None, id=None, event=1):
    d = {
        "title": title,
        "logsource": {"product": "windows"},
        "detection": {"sel": {"EventID": event}, "condition": "sel"},
    }
    if name:
        d["name"] = name
    if id:
        d["id"] = id
    return d


def corr(title, rules, name=None, generate=None, ctype="event_count", id=None):
    c = {
        "type": ctype,
        "rules": rules,
        "group-by": ["user"],
        "timespan": "5m",
    }
    if ctype == "event_count":
        c["condition"] = {"gte": 3}
    if generate is not None:
        c["generate"] = generate
    d = {"title": title, "correlation": c}
    if name:
        d["name"] = name
    if id:
        d["id"] = id
    return d


FILTER = {
    "title": "F",
    "logsource": {"product": "windows"},
    "filter": {"rules": ["a"], "sel": {"User": "admin"}, "condition": "not sel"},
}

UUID_B = "5d8fd9da-6916-45ef-8d4d-3fa9d19d1a64"

RULESETS = {
    "basic": [plain("A", "a"), plain("U", event=9), corr("C", ["a"])],
    "generate": [plain("A", "a"), plain("B", id=UUID_B, event=2), corr("C", ["a", UUID_B], generate=True)],
    "mixed_generate": [
        plain("A", "a"),
        corr("C1", ["a"], generate=True),
        corr("C2", ["a"], generate=False),
        plain("U", "u", event=7),
    ],
    "chain3": [
        plain("A", "a"),
        plain("B", "b", event=2),
        corr("C1", ["a", "b"], name="c1", ctype="temporal"),
        corr("C2", ["c1"], name="c2"),
        corr("C3", ["c2"], name="c3", generate=True),
        plain("U", event=5),
    ],
    "missing": [plain("A", "a"), corr("C", ["a", "nope"])],
    "missing_chain": [plain("A", "a"), corr("C1", ["a"], name="c1"), corr("C2", ["cX"])],
    "with_filter": [plain("A", "a"), dict(FILTER), corr("C", ["a"], generate=True)],
    "only_corr_no_refs_found": [corr("C", ["a"])],
    "empty": [],
}


SCRUB = []
_print = print


def print(*args):  # noqa: A001 - temporary directory names are random, hide them
    text = " ".join(str(a) for a in args)
    for t in SCRUB:
        text = text.replace(t, "<TMP>")
    _print(text)


def describe(coll, backend=None):
    backend = backend or TextQueryTestBackend()
    order = [r.title for r in coll.rules]
    out = backend.convert(coll)
    flags = sorted((r.title, r._output, len(r._backreferences)) for r in coll.rules)
    return order, sorted(map(str, out)), flags, [r.title for r in coll.rules], [str(e) for e in coll.errors]


def attempt(fn):
    try:
        return ("ok", fn())
    except SigmaError as e:
        return ("sigma-error", type(e).__name__, str(e))
    except Exception as e:  # noqa
        return ("other-error", type(e).__name__, str(e))


def perms(docs, limit=24):
    all_p = list(itertools.permutations(range(len(docs))))
    if len(all_p) > limit:
        rnd = random.Random(1234)
        all_p = [all_p[0], all_p[-1]] + rnd.sample(all_p, limit - 2)
    return all_p


def main():
    print("sigma from", "worktree" if "/tmp/wt9-C09/" in sigma.types.__file__ else sigma.types.__file__)
    for name, docs in RULESETS.items():
        print("=== ruleset", name)
        for p in perms(docs):
            ordered = [docs[i] for i in p]
            copy = lambda: yaml.safe_load(yaml.safe_dump(ordered)) if ordered else []

            # 1. one YAML stream
            text = "\n---\n".join(yaml.safe_dump(d) for d in ordered)
            print(p, "from_yaml ", attempt(lambda: describe(SigmaCollection.from_yaml(text))))
            # 2. from_dicts
            print(p, "from_dicts", attempt(lambda: describe(SigmaCollection.from_dicts(copy()))))

            # 3. merge of single-document collections (list and one-shot generator)
            def merged(as_generator):
                parts = [
                    SigmaCollection.from_dicts([d], resolve_references=False, collect_filters=True)
                    for d in copy()
                ]
                return describe(SigmaCollection.merge((c for c in parts) if as_generator else parts))

            print(p, "merge list", attempt(lambda: merged(False)))
            print(p, "merge gen ", attempt(lambda: merged(True)))

            # 4. load_ruleset from several files
            with tempfile.TemporaryDirectory() as tmp:
                SCRUB.append(tmp)
                for n, d in enumerate(ordered):
                    (Path(tmp) / f"{n:02d}.yml").write_text(yaml.safe_dump(d))
                files = sorted(Path(tmp).glob("*.yml"))
                print(p, "ruleset   ", attempt(lambda: describe(SigmaCollection.load_ruleset(files))))
                print(p, "ruleset dir", attempt(lambda: sorted(describe(SigmaCollection.load_ruleset([tmp]))[1])))

    print("=== load_ruleset hooks, errors and odd inputs")
    docs = RULESETS["chain3"]
    with tempfile.TemporaryDirectory() as tmp:
        tmpp = Path(tmp)
        SCRUB.append(tmp)
        for n, d in enumerate(reversed(docs)):
            (tmpp / f"{n:02d}.yml").write_text(yaml.safe_dump(d))
        (tmpp / "skipme.yml").write_text("title: broken\n")
        (tmpp / "multi.yml").write_text(
            yaml.safe_dump(plain("M1", "m1", event=11)) + "---\n" + yaml.safe_dump(corr("MC", ["m1", "a"]))
        )
        files = sorted(tmpp.glob("*.yml"))
        calls = []

        def before(path):
            calls.append(("before", path.name))
            return None if path.name == "skipme.yml" else path

        def onload(path, coll):
            calls.append(("load", path.name, len(coll.rules), [r.title for r in coll.rules]))
            if path.name == "00.yml":  # drops the unrelated rule U
                return None
            return coll

        print("hooks", attempt(lambda: describe(SigmaCollection.load_ruleset(files, on_beforeload=before, on_load=onload))))
        print("calls", calls)
        calls.clear()
        # dropping a referenced rule by hook: missing reference at load time
        def drop_a(path, coll):
            calls.append(path.name)
            return None if [r.title for r in coll.rules] == ["A"] else coll
        print("drop referenced", attempt(lambda: describe(SigmaCollection.load_ruleset(files, on_beforeload=before, on_load=drop_a))))
        print("calls", calls)
        # without skipping the broken file: error raised / collected
        print("broken raise", attempt(lambda: describe(SigmaCollection.load_ruleset(files))))
        print("broken collect", attempt(lambda: describe(SigmaCollection.load_ruleset(files, collect_errors=True, on_load=lambda p, c: None if p.name == "skipme.yml" else c))))
        r = attempt(lambda: SigmaCollection.load_ruleset(files, collect_errors=True, resolve_references=False))
        print("collect errors", r[0], [str(e) for e in r[1].errors] if r[0] == "ok" else r)
        print("unresolved", attempt(lambda: [(r.title, r._output, len(r._backreferences)) for r in SigmaCollection.load_ruleset(files, on_beforeload=before, resolve_references=False)]))
        print("bad inputs str", attempt(lambda: SigmaCollection.load_ruleset(str(tmpp))))
        print("bad inputs int", attempt(lambda: SigmaCollection.load_ruleset(5)))
        print("missing file", attempt(lambda: SigmaCollection.load_ruleset([tmpp / "nope.yml"]))[:2])
        print("hook raising", attempt(lambda: SigmaCollection.load_ruleset(files, on_beforeload=lambda p: 1 / 0)))
        print("hook bad path", attempt(lambda: SigmaCollection.load_ruleset(files, on_beforeload=lambda p: "x")))
        print("empty list", attempt(lambda: describe(SigmaCollection.load_ruleset([]))))

    print("=== merge odd inputs")
    c1 = SigmaCollection.from_dicts([plain("A", "a")])
    c2 = SigmaCollection.from_dicts([corr("C", ["a"])], resolve_references=False)
    print("merge unresolved flag", attempt(lambda: [(r.title, r._output, len(r._backreferences)) for r in SigmaCollection.merge([c2, c1], resolve_references=False)]))
    print("merge resolved", attempt(lambda: describe(SigmaCollection.merge([c2, c1]))))
    print("merge same twice", attempt(lambda: describe(SigmaCollection.merge([c1, c2, c1]))))
    print("merge empty", attempt(lambda: describe(SigmaCollection.merge([]))))
    print("merge bad member", attempt(lambda: SigmaCollection.merge([c1, 3])))
    print("merge non-iterable", attempt(lambda: SigmaCollection.merge(None)))
    cf = SigmaCollection.from_dicts([dict(FILTER)], collect_filters=True, resolve_references=False)
    print("merge filter", attempt(lambda: describe(SigmaCollection.merge([cf, c2, c1]))))
    ce = SigmaCollection.from_dicts([plain("A", "a"), 17, {"action": "bogus"}], collect_errors=True)
    print("merge errors", attempt(lambda: describe(SigmaCollection.merge([ce, c2]))))

    print("=== Backend.convert variants")
    coll = SigmaCollection.from_dicts(yaml.safe_load(yaml.safe_dump(RULESETS["chain3"][::-1])))
    for fmt in (None, "default", "test", "state", "nonexistent"):
        print("format", fmt, attempt(lambda: [str(q) for q in TextQueryTestBackend().convert(coll, fmt)] if fmt != "state" else str(TextQueryTestBackend().convert(coll, fmt))))
    print("method", attempt(lambda: TextQueryTestBackend().convert(coll, None, "test")))
    print("bad method", attempt(lambda: TextQueryTestBackend().convert(coll, None, "bogus")))
    print("bad method collected", attempt(lambda: (lambda b: (b.convert(coll, None, "bogus"), [(r.title, type(e).__name__, str(e)) for r, e in b.errors]))(TextQueryTestBackend(collect_errors=True))))
    seen = []

    def cb(rule, fmt, index, cond, result):
        seen.append((rule.title, fmt, index))
        return None if rule.title == "U" else result

    print("callback", attempt(lambda: TextQueryTestBackend().convert(coll, None, None, cb)), seen)
    b = TextQueryTestBackend()
    b.finalize_correlation_subqueries = True
    print("finalize subqueries", attempt(lambda: describe(coll, b)))
    # rule list tampered with after load: missing reference target detected by convert()
    coll2 = SigmaCollection.from_dicts(yaml.safe_load(yaml.safe_dump(RULESETS["basic"])))
    coll2.rules = [r for r in coll2.rules if r.title != "A"]
    coll2.names_to_rules.pop("a")
    print("tampered", attempt(lambda: describe(coll2)))
    coll3 = SigmaCollection.from_dicts(yaml.safe_load(yaml.safe_dump(RULESETS["basic"])))
    coll3.rules.append("not a rule")
    print("foreign object", attempt(lambda: describe(coll3))[:2])
    return 0


if __name__ == "__main__":
    sys.exit(main())
