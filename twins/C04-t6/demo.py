"""Exercise the encoding modifiers (base64, base64offset, wide, utf16le, utf16be, utf16 and chains)."""
import itertools
from base64 import b64encode

import sigma.types
from sigma.rule import SigmaDetectionItem
from sigma.types import SigmaString, SigmaExpansion, Placeholder, SpecialChars
from sigma.modifiers import (
    SigmaBase64Modifier,
    SigmaBase64OffsetModifier,
    SigmaWideModifier,
)
from sigma.exceptions import SigmaError

import builtins


def print(*args):  # ASCII-only output, so lone surrogates in messages can be shown
    builtins.print(" ".join(str(a) for a in args).encode("ascii", "backslashreplace").decode())


print("imported from worktree:", "/tmp/wt7-C04/" in sigma.types.__file__)


def show(v):
    if isinstance(v, SigmaExpansion):
        return "Expansion[" + ", ".join(show(x) for x in v.values) + "]"
    if isinstance(v, SigmaString):
        return f"{type(v).__name__}{v.s!r}"
    return repr(v)


def run(mods, payload):
    key = "f|" + "|".join(mods)
    try:
        item = SigmaDetectionItem.from_mapping(key, payload)
        out = "[" + ", ".join(show(v) for v in item.value) + "]"
    except SigmaError as e:
        out = f"{type(e).__name__}: {e} (source={getattr(e, 'source', None)!r}, cause={type(e.__cause__).__name__})"
    except Exception as e:  # anything else is still shown
        out = f"!{type(e).__name__}: {e}"
    print(f"{key} {payload!r} -> {out}")
    return out


payloads = [
    "",
    "a",
    "ab",
    "abc",
    "abcd",
    "foobar",
    "ping 1.2.3.4",
    "ä",
    "äö",
    "日本語",
    "a\U0001f600b",
    "\ud800",  # lone surrogate: not encodable as UTF-8
    "a*b",
    "a?b",
    "a\\*b",
    "a\\?b",
    "back\\\\slash",
    "%placeholder%",
    "x%y",
    123,
    None,
    ["ab", "cde"],
    ["ok", "b*d"],
]
chains = [
    ["base64"],
    ["base64offset"],
    ["base64offset", "contains"],
    ["wide"],
    ["utf16le"],
    ["utf16be"],
    ["utf16"],
    ["wide", "base64"],
    ["wide", "base64offset"],
    ["utf16le", "base64offset"],
    ["utf16be", "base64"],
    ["utf16be", "base64offset"],
    ["utf16", "base64"],
    ["utf16", "base64offset"],
    ["expand", "base64"],
    ["expand", "base64offset"],
    ["windash", "base64offset"],
    ["base64", "base64offset"],
]
for chain in chains:
    for p in payloads:
        run(chain, p)

# direct calls with hand-built strings (placeholder + wildcard at once: which error wins)
item = SigmaDetectionItem.from_mapping("f", "x")
both = SigmaString("a*b")
both.s = ["a", SpecialChars.WILDCARD_MULTI, Placeholder("p"), "b"]
only_ph = SigmaString("")
only_ph.s = [Placeholder("p")]
for cls in (SigmaBase64Modifier, SigmaBase64OffsetModifier):
    for v in (both, only_ph, SigmaString("plain"), SigmaExpansion([SigmaString("a"), SigmaString("bc")]), 5):
        try:
            print(cls.__name__, show(v), "->", [show(x) for x in cls(item, [], source=None).apply(v)])
        except Exception as e:
            print(cls.__name__, show(v), "->", type(e).__name__, e)

# subclass with other offset tables / instance attribute: tables are looked up through self
class Shifted(SigmaBase64OffsetModifier):
    start_offsets = (1, 2, 3)
    end_offsets = (-1, -3, -2)

print("subclass", [show(x) for x in Shifted(item, []).apply(SigmaString("foobar"))])
m = SigmaBase64OffsetModifier(item, [])
m.end_offsets = (None, -4, -3)
print("instance attr", [show(x) for x in m.apply(SigmaString("foobar"))])
short = SigmaBase64OffsetModifier(item, [])
short.start_offsets = (0, 2)
try:
    print("short table", [show(x) for x in short.apply(SigmaString("foobar"))])
except Exception as e:
    print("short table ->", type(e).__name__, e)
print("class attrs", SigmaBase64OffsetModifier.start_offsets, SigmaBase64OffsetModifier.end_offsets)

# the property itself: payload found at every alignment in surrounding bytes
alphabet = "aZ9é"
count = 0
bad = 0
for n in range(0, 5):
    for tup in itertools.product(alphabet, repeat=n):
        payload = "".join(tup)
        if payload == "":
            continue
        raw = payload.encode()
        vals = [str(v) for v in SigmaBase64OffsetModifier(item, []).modify(SigmaString(payload)).values]
        assert str(SigmaBase64Modifier(item, []).modify(SigmaString(payload))) == b64encode(raw).decode()
        for pre in range(0, 6):
            for suf in range(0, 6):
                for fill in (b"\x00", b"\xff", b"q"):
                    hay = b64encode(fill * pre + raw + fill * suf).decode()
                    count += 1
                    if not any(v in hay for v in vals):
                        bad += 1
print("alignment checks:", count, "misses:", bad)
for payload in ("a", "ab", "abc", "abcd", "é", "aé"):
    print(payload, [str(v) for v in SigmaBase64OffsetModifier(item, []).modify(SigmaString(payload)).values],
          [bytes(v) for v in SigmaWideModifier(item, []).apply(SigmaString(payload))] if payload.isascii() else "-")
