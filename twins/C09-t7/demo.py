"""Demo for C09/t7: rule indexing, filter partitioning and reference ordering in SigmaCollection."""
import itertools
import random
import tempfile
from collections import Counter
from pathlib import Path
from uuid import UUID

from sigma.backends.test import TextQueryTestBackend
from sigma.collection import SigmaCollection
from sigma.exceptions import SigmaError
from sigma.filters import SigmaFilter
from sigma.rule import SigmaRule

ID_A = "11111111-1111-1111-1111-111111111111"
ID_B = "22222222-2222-2222-2222-222222222222"


def plain(title, name=None, rid=None, field="f", value="v"):
    d = {
        "title": title,
        "logsource": {"category": "test"},
        "detection": {"sel": {field: value}, "condition": "sel"},
    }
    if name is not None:
        d["name"] = name
    if rid is not None:
        d["id"] = rid
    return d


def corr(title, rules, name=None, generate=None, ctype="event_count", rid=None):
    c = {"type": ctype, "rules": rules, "timespan": "5m", "group-by": ["user"]}
    if ctype == "event_count":
        c["condition"] = {"gte": 2}
    if generate is not None:
        c["generate"] = generate
    d = {"title": title, "correlation": c}
    if name is not None:
        d["name"] = name
    if rid is not None:
        d["id"] = rid
    return d


def describe(coll):
    return [
        (r.title, r._output, sorted(b.title for b in r._backreferences)) for r in coll.rules
    ]


def convert(coll):
    backend = TextQueryTestBackend()
    try:
        res = backend.convert(coll)
    except Exception as e:  # noqa: BLE001
        return f"{type(e).__name__}: {e}"
    return sorted(Counter(res).items())


def references_first(coll):
    pos = {id(r): i for i, r in enumerate(coll.rules)}
    for r in coll.rules:
        for ref in getattr(r, "referenced_rules", []):
            if pos[id(ref.rule)] > pos[id(r)]:
                return False
    return True


def run_set(label, docs, max_perms=24):
    print(f"=== {label} ({len(docs)} documents)")
    perms = list(itertools.permutations(range(len(docs))))
    if len(perms) > max_perms:
        random.Random(9).shuffle(perms)
        perms = perms[:max_perms]
    outcomes = set()
    for perm in perms:
        ordered_docs = [docs[i] for i in perm]
        for path in ("from_dicts", "merge", "from_yaml"):
            try:
                if path == "from_dicts":
                    coll = SigmaCollection.from_dicts(ordered_docs)
                elif path == "merge":
                    coll = SigmaCollection.merge(
                        [
                            SigmaCollection.from_dicts([d], collect_errors=False)
                            if "correlation" not in d
                            else SigmaCollection(
                                [__import__("sigma.correlations").correlations.SigmaCorrelationRule.from_dict(d)],
                                resolve_references=False,
                            )
                            for d in ordered_docs
                        ]
                    )
                else:
                    import yaml

                    coll = SigmaCollection.from_yaml(yaml.safe_dump_all(ordered_docs))
            except SigmaError as e:
                line = f"load error {type(e).__name__}: {e}"
                print(f"  {perm} {path}: {line}")
                outcomes.add(line)
                continue
            ok = references_first(coll)
            queries = convert(coll)
            print(f"  {perm} {path}: order={[r.title for r in coll.rules]} refs_first={ok}")
            print(f"      state={describe(coll)}")
            print(f"      queries={queries}")
            outcomes.add(repr(queries))
    print(f"  distinct outcomes over permutations/paths: {len(outcomes)}")


# 1. one correlation by name, generate off, unrelated rule interleaved
run_set(
    "name reference, no generate",
    [plain("A", name="a", field="fa"), plain("U", field="fu"), corr("C", ["a"])],
)
# 2. generate on, reference by id and by name
run_set(
    "id + name reference, generate",
    [
        plain("A", rid=ID_A, field="fa"),
        plain("B", name="b", field="fb"),
        corr("C", [ID_A, "b"], generate=True, ctype="temporal"),
    ],
)
# 3. chain of correlations depth 3, mixed generate
run_set(
    "chain depth 3",
    [
        plain("A", name="a", field="fa"),
        plain("B", name="b", field="fb"),
        corr("C1", ["a", "b"], name="c1", ctype="temporal"),
        corr("C2", ["c1"], name="c2", generate=True),
        corr("C3", ["c2"]),
    ],
    max_perms=12,
)
# 4. rule referenced by a generating and a non-generating correlation
run_set(
    "shared reference",
    [
        plain("A", name="a", field="fa"),
        corr("G", ["a"], generate=True),
        corr("N", ["a"]),
        plain("U", field="fu"),
    ],
)
# 5. missing reference -> Sigma error at load time
run_set("missing reference", [plain("A", name="a"), corr("C", ["nope"])])
# 6. name that looks like nothing / id given as name string of other rule
run_set(
    "name equals another rule's id string",
    [plain("A", rid=ID_A, field="fa"), plain("B", name=ID_B, field="fb"), corr("C", [ID_B, ID_A])],
)

print("=== index maps and duplicates")
docs = [
    plain("first", name="dup", rid=ID_A, field="f1"),
    plain("second", name="dup", rid=ID_A, field="f2"),
    plain("noid", field="f3"),
    corr("C", ["dup"], name="cn", rid=ID_B),
]
coll = SigmaCollection.from_dicts(docs)
print(sorted((str(k), v.title) for k, v in coll.ids_to_rules.items()))
print(sorted((k, v.title) for k, v in coll.names_to_rules.items()))
print(describe(coll))
print(coll["dup"].title, coll[ID_A].title, coll[UUID(ID_B)].title, coll[0].title)
print(convert(coll))

print("=== unsupported objects and filters at construction")
for bad in (42, "rule", None, {"title": "x"}):
    try:
        SigmaCollection([SigmaRule.from_dict(plain("A", name="a")), bad])
    except Exception as e:  # noqa: BLE001
        print(type(e).__name__, e)

FILTER = {
    "title": "F",
    "logsource": {"category": "test"},
    "filter": {"rules": ["a"], "flt": {"user": "admin"}, "condition": "not flt"},
}


def norm(queries):
    import re

    return [re.sub(r"_filt_[a-z]{10}", "_filt_X", str(q)) for q in queries]


random.seed(1234)
flt = SigmaFilter.from_dict(FILTER)
coll = SigmaCollection.from_dicts([plain("A", name="a", field="fa"), corr("C", ["a"], generate=True), FILTER])
print([r.title for r in coll.rules], [f.title for f in coll.filters])
print(convert(coll))
coll = SigmaCollection.from_dicts(
    [FILTER, corr("C", ["a"]), plain("A", name="a", field="fa")], collect_filters=True
)
print([r.title for r in coll.rules], [f.title for f in coll.filters], describe(coll))

print("=== filter objects placed in the rule list afterwards")
random.seed(99)
coll = SigmaCollection.from_dicts(
    [corr("C", ["a"], generate=True), plain("U", field="fu"), plain("A", name="a", field="fa")]
)
coll.rules.insert(1, SigmaFilter.from_dict(FILTER))
coll.rules.append(SigmaFilter.from_dict({**FILTER, "title": "F2", "filter": {"rules": ["a"], "f2": {"host": "h"}, "condition": "not f2"}}))
before = list(coll.rules)
coll.resolve_rule_references()
print([r.title for r in coll.rules], describe(coll))
print("same rule objects kept:", [any(r is b for b in before) for r in coll.rules])
print(sorted(coll.rules[0].detection.detections) if hasattr(coll.rules[0], "detection") else None)
print(convert(coll))
print([sorted(re_) for re_ in [norm(r.detection.detections) for r in coll.rules if hasattr(r, "detection")]])

print("=== failing filter keeps the filter-free rule list")


class Boom(SigmaFilter):
    def apply_on_rule(self, rule):
        raise RuntimeError("boom on " + rule.title)


coll = SigmaCollection.from_dicts([plain("A", name="a"), corr("C", ["a"])])
coll.rules.insert(0, Boom.from_dict(FILTER))
try:
    coll.resolve_rule_references()
except RuntimeError as e:
    print("RuntimeError", e, [r.title for r in coll.rules], describe(coll))

print("=== load_ruleset from several files")
with tempfile.TemporaryDirectory() as tmp:
    import yaml

    tmp = Path(tmp)
    files = {
        "1_corr.yml": [corr("C", ["a", "b"], ctype="temporal")],
        "2_b.yml": [plain("B", name="b", field="fb"), plain("U", field="fu")],
        "3_a.yml": [plain("A", name="a", field="fa")],
    }
    for fname, content in files.items():
        (tmp / fname).write_text(yaml.safe_dump_all(content))
    for order in itertools.permutations(sorted(files)):
        coll = SigmaCollection.load_ruleset([tmp / f for f in order])
        print(order, [r.title for r in coll.rules], references_first(coll), convert(coll))
    (tmp / "3_a.yml").unlink()
    try:
        SigmaCollection.load_ruleset([tmp])
    except SigmaError as e:
        print(type(e).__name__, e)
