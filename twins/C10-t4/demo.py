"""Demo for property C10: correlation queries carry every element of the correlation rule.

Converts a range of correlation rules (all eight correlation types, basic and extended
conditions, 1..3 referenced rules, rules with several conditions, nested correlations,
aliases, group-by, fields, several timespan units) with variants of the text query test
backend and prints everything that is observable: returned queries, conversion results stored
on the rules, callback invocations, collected errors and raised exceptions.
"""

import sys

import sigma.types
from sigma.backends.test import TextQueryTestBackend
from sigma.collection import SigmaCollection
from sigma.correlations import (
    CorrelationConditionAND,
    CorrelationConditionItem,
    SigmaCorrelationRule,
    SigmaCorrelationType,
    SigmaRuleReference,
)
from sigma.processing.pipeline import ProcessingItem, ProcessingPipeline
from sigma.processing.transformations import FieldMappingTransformation

print("sigma imported from", sigma.types.__file__.rsplit("/sigma/", 1)[0])

BASE_RULES = """
title: Failed logon
name: failed_logon
id: 11111111-1111-1111-1111-111111111111
status: test
logsource:
    product: windows
    service: security
detection:
    selection:
        EventID: 4625
    condition: selection
fields:
    - SubjectUserName
    - TargetUserName
---
title: Successful logon
name: successful_logon
status: test
logsource:
    product: windows
    service: security
detection:
    selection:
        EventID: 4624
    condition: selection
fields:
    - TargetUserName
    - LogonType
---
title: Two conditions
name: two_conditions
status: test
logsource:
    product: windows
    service: security
detection:
    sel1:
        fieldA: "va*"
    sel2:
        fieldC|contains: "x y"
    condition:
        - sel1
        - sel2
---
title: Referenced by id only
id: 22222222-2222-2222-2222-222222222222
status: test
logsource:
    product: windows
    service: security
detection:
    selection:
        fieldB: 1
    condition: selection
"""


def correlation(body: str, title: str = "Correlation", extra: str = "") -> str:
    return f"---\ntitle: {title}\nstatus: test\n{extra}correlation:\n{body}\n"


CASES = {
    "event_count single rule, group-by, fields": correlation(
        """    type: event_count
    rules:
        - failed_logon
    group-by:
        - TargetUserName
        - fieldB
    timespan: 5m
    condition:
        gte: 10
fields:
    - Computer
    - TargetUserName"""
    ),
    "event_count single rule with two conditions": correlation(
        """    type: event_count
    rules:
        - two_conditions
    timespan: 90s
    condition:
        lt: 3"""
    ),
    "event_count rule referenced by id": correlation(
        """    type: event_count
    rules:
        - 22222222-2222-2222-2222-222222222222
    timespan: 2h
    condition:
        eq: 1"""
    ),
    "value_count": correlation(
        """    type: value_count
    rules:
        - failed_logon
        - successful_logon
    group-by:
        - fieldA
    timespan: 1d
    condition:
        gt: 100
        field: fieldC"""
    ),
    "value_sum": correlation(
        """    type: value_sum
    rules:
        - failed_logon
    timespan: 1w
    condition:
        lte: 7
        field: bytes"""
    ),
    "value_avg": correlation(
        """    type: value_avg
    rules:
        - failed_logon
    timespan: 1M
    condition:
        neq: 7
        field: fieldB"""
    ),
    "value_percentile": correlation(
        """    type: value_percentile
    rules:
        - failed_logon
    timespan: 1y
    condition:
        gte: 7
        field: duration
        percentile: 95"""
    ),
    "value_percentile without percentile": correlation(
        """    type: value_percentile
    rules:
        - failed_logon
    timespan: 10m
    condition:
        gte: 7
        field: duration"""
    ),
    "value_median": correlation(
        """    type: value_median
    rules:
        - successful_logon
    timespan: 15m
    condition:
        gt: 7
        field: duration"""
    ),
    "temporal three rules with aliases": correlation(
        """    type: temporal
    rules:
        - failed_logon
        - successful_logon
        - two_conditions
    aliases:
        user:
            failed_logon: TargetUserName
            successful_logon: fieldA
        host:
            two_conditions: fieldC
    group-by:
        - user
        - host
    timespan: 5m
    condition:
        gte: 2"""
    ),
    "temporal_ordered": correlation(
        """    type: temporal_ordered
    rules:
        - successful_logon
        - failed_logon
    group-by:
        - TargetUserName
    timespan: 30s
    condition:
        eq: 2"""
    ),
    "temporal extended and/or/not": correlation(
        """    type: temporal
    condition: failed_logon and (successful_logon or not two_conditions)
    group-by:
        - fieldB
    timespan: 5m"""
    ),
    "temporal extended single reference": correlation(
        """    type: temporal
    condition: not failed_logon
    timespan: 3h"""
    ),
    "temporal_ordered extended": correlation(
        """    type: temporal_ordered
    condition: (failed_logon or successful_logon) and not (two_conditions and failed_logon)
    timespan: 12m"""
    ),
    "nested correlation": correlation(
        """    type: event_count
    rules:
        - failed_logon
    group-by:
        - TargetUserName
    timespan: 5m
    condition:
        gte: 10""",
        title="Inner",
        extra="name: inner_corr\n",
    )
    + correlation(
        """    type: temporal
    rules:
        - inner_corr
        - successful_logon
    group-by:
        - TargetUserName
    timespan: 1h
    condition:
        gte: 2""",
        title="Outer",
    ),
    "generate: false correlation source rules": correlation(
        """    type: event_count
    rules:
        - failed_logon
    generate: true
    timespan: 5m
    condition:
        gte: 10"""
    ),
}


class TypingBackend(TextQueryTestBackend):
    typing_expression = "| eval event_type=case({queries})"
    typing_rule_query_expression = '{query}, "{ruleid}"'
    typing_rule_query_expression_joiner = ", "
    default_correlation_query = {"test": "{search}\n{typing}\n{aggregate}\n{condition}"}
    temporal_correlation_query = {"test": "{search}\n{typing}\n{aggregate}\n{condition}"}

    def convert_correlation_typing_query_postprocess(self, query):
        return f"<{query}>"


class BrokenTypingBackend(TypingBackend):
    typing_rule_query_expression_joiner = None


class SecondsBackend(TextQueryTestBackend):
    timespan_seconds = True
    correlation_search_single_rule_expression = None
    correlation_fields_expression = {"test": " {fields}"}
    correlation_fields_field_expression = {"test": "values({field}) as {field}"}
    correlation_fields_field_expression_joiner = {"test": " "}
    event_count_aggregation_expression = {
        "test": "| aggregate window={timespan} count() as event_count{fields}{groupby}"
    }
    temporal_aggregation_expression = {
        "test": "| temporal window={timespan} eventtypes={referenced_rules}{fields}{groupby}"
    }

    def convert_correlation_search_multi_rule_query_postprocess(self, query):
        return f"({query})"


class SingleRuleExpressionBackend(TextQueryTestBackend):
    correlation_search_single_rule_expression = "search[{ruleid}] {query}{normalization}"
    finalize_correlation_subqueries = True


class NoMultiBackend(TextQueryTestBackend):
    correlation_search_multi_rule_query_expression_joiner = None


class NoTemporalExtendedBackend(TextQueryTestBackend):
    temporal_extended_correlation_query = None
    default_correlation_query = None


class NoCorrelationBackend(TextQueryTestBackend):
    correlation_methods = None


class NoGroupBackend(TextQueryTestBackend):
    group_expression = None
    groupby_expression_nofield = {"test": " by nothing"}


BACKENDS = {
    "plain": lambda **kw: TextQueryTestBackend(**kw),
    "typing": lambda **kw: TypingBackend(**kw),
    "broken typing": lambda **kw: BrokenTypingBackend(**kw),
    "seconds+fields+no single expr": lambda **kw: SecondsBackend(**kw),
    "single rule expr+finalised subqueries": lambda **kw: SingleRuleExpressionBackend(**kw),
    "no multi rule joiner": lambda **kw: NoMultiBackend(**kw),
    "no temporal_extended template": lambda **kw: NoTemporalExtendedBackend(**kw),
    "no correlation support": lambda **kw: NoCorrelationBackend(**kw),
    "no group expression": lambda **kw: NoGroupBackend(**kw),
    "field mapping pipeline": lambda **kw: TextQueryTestBackend(
        ProcessingPipeline(
            [
                ProcessingItem(
                    FieldMappingTransformation(
                        {
                            "TargetUserName": "user.name",
                            "duration": ["dur"],
                            "bytes": "net.bytes",
                        }
                    )
                )
            ]
        ),
        **kw,
    ),
}


def show_rules(collection):
    for rule in collection.rules:
        try:
            result = rule.get_conversion_result()
        except Exception as e:  # not converted
            result = f"{type(e).__name__}: {e}"
        print(f"      stored[{rule.name or rule.id or rule.title}] = {result!r}")


def run(case_name, yaml_text, backend_name, make_backend):
    for collect_errors in (False, True):
        collection = SigmaCollection.from_yaml(BASE_RULES + yaml_text)
        backend = make_backend(collect_errors=collect_errors)
        calls = []

        def callback(rule, output_format, index, query, result):
            calls.append(
                (
                    rule.title,
                    output_format,
                    index,
                    query if isinstance(query, str) else type(query).__name__,
                    result,
                )
            )
            return result

        print(f"  -- backend={backend_name} collect_errors={collect_errors}")
        try:
            out = backend.convert(collection, callback=callback)
            for query in out:
                print("      query:", repr(query))
        except Exception as e:
            print(f"      raised {type(e).__name__}: {e}")
        for rule, error in backend.errors:
            print(f"      error[{rule.title}] {type(error).__name__}: {error}")
        for call in calls:
            print("      callback:", call)
        show_rules(collection)


for case_name, yaml_text in CASES.items():
    print("=" * 100)
    print("CASE", case_name)
    for backend_name, make_backend in BACKENDS.items():
        run(case_name, yaml_text, backend_name, make_backend)

# Other output formats and explicit correlation methods
print("=" * 100)
print("CASE output formats / correlation methods")
for fmt in (None, "default", "test", "state", "list_of_dict"):
    for method in (None, "test", "nonexistent"):
        collection = SigmaCollection.from_yaml(
            BASE_RULES + CASES["temporal extended and/or/not"]
        )
        backend = TextQueryTestBackend()
        try:
            print(f"  format={fmt} method={method}:", repr(backend.convert(collection, fmt, method)))
        except Exception as e:
            print(f"  format={fmt} method={method}: raised {type(e).__name__}: {e}")

# Direct calls of the dispatching functions with unusual arguments
print("=" * 100)
print("CASE direct calls")
backend = TextQueryTestBackend()
collection = SigmaCollection.from_yaml(BASE_RULES + CASES["temporal extended and/or/not"])
backend.convert(collection)
corr = [r for r in collection.rules if isinstance(r, SigmaCorrelationRule)][0]
print("  parsed:", corr.condition.parsed)
print("  ext:", backend.convert_extended_correlation_condition(corr.condition.parsed, "test"))
ref = SigmaRuleReference("failed_logon")
ref.rule = collection["failed_logon"]
print("  ref:", backend.convert_extended_correlation_condition(ref, "test"))
print("  group:", backend.convert_extended_correlation_condition_group(ref, "test"))
for weird in ("a string", None, 42, CorrelationConditionItem([ref]), object):
    try:
        print("  weird:", backend.convert_extended_correlation_condition(weird, "test"))
    except Exception as e:
        print(f"  weird {weird!r:.40}: raised {type(e).__name__}: {e}")


class MyAnd(CorrelationConditionAND):
    pass


print("  subclass:", backend.convert_extended_correlation_condition(MyAnd([ref, ref]), "test"))

# Rule type the dispatch does not know, and type/condition combinations set after parsing
for new_type in (None, "event_count", SigmaCorrelationType.EVENT_COUNT, SigmaCorrelationType.TEMPORAL_ORDERED):
    for collect_errors in (False, True):
        collection = SigmaCollection.from_yaml(BASE_RULES + CASES["temporal extended and/or/not"])
        corr = [r for r in collection.rules if isinstance(r, SigmaCorrelationRule)][0]
        corr.type = new_type
        backend = TextQueryTestBackend(collect_errors=collect_errors)
        try:
            print(f"  type={new_type!r}:", repr(backend.convert(collection)))
        except Exception as e:
            print(f"  type={new_type!r}: raised {type(e).__name__}: {e}")
        for rule, error in backend.errors:
            print(f"      error[{rule.title}] {type(error).__name__}: {error}")

sys.exit(0)
