"""
Demo for C20 / t5: application of Sigma filters (SigmaFilter.apply_on_rule): the random
'_filt_<10 letters>' prefix, the rewriting of the filter condition and the converted queries.

Run as: PYTHONPATH=/tmp/wt6-C20 /venv/bin/python demo.py
The parent process starts the driver (this file with the argument "child") in subprocesses with
different PYTHONHASHSEED values and different seeds of the random module. The first part of the
driver output (queries, errors, conditions with the random prefixes replaced by numbers) has to be
the same in every run; the second part (the prefixes that were actually drawn) only depends on the
seed of the random module.
"""

import hashlib
import os
import re
import subprocess
import sys

RULE = """
title: Rule {n}
name: rule_{n}
id: 00000000-0000-0000-0000-00000000000{n}
status: test
logsource:
    category: process_creation
    product: windows
detection:
{detections}
    condition: {condition}
"""

DETECTIONS_PLAIN = """
    selection:
        Image|endswith: '\\\\cmd.exe'
    other:
        User: [admin, root]
"""

FILTER = """
title: Filter {title}
logsource:
    {logsource}
filter:
    rules: {rules}
{detections}
    condition: {condition}
"""

FILTER_DETECTIONS = """
    selection_a:
        User|startswith: svc_
    selection_b:
        Image|re|i|s|m: '^C:.ok\\.exe$'
    svc_allow:
        ParentImage: 'C:\\\\svc.exe'
    sel-1:
        Field1: 1
    2sel:
        Field2|contains|all: [x, y]
"""

# detections that are named like the words of selectors
FILTER_DETECTIONS_KEYWORDS = """
    them:
        A: them
    of:
        B: of
    all:
        C: all
    any:
        D: any
    selection_1:
        E: 1
"""

FILTER_CONDITIONS = [
    "not selection_a",
    "not 1 of selection_*",
    "not all of selection_*",
    "not any of *_allow",
    "not 1 of them",
    "not (all of them)",
    "not 1  of \t selection_*",
    "not (selection_a or selection_b) and not svc_allow",
    "not sel-1 and not 2sel",
    "1 of *_allow and not any of sel*",
    "not(selection_a)or(not svc_allow)",
    "not 1 of (selection_a)",
    "not selection_a and",
    "not nonexistent",
    "not 1 of nothing_*",
]

FILTER_CONDITIONS_KEYWORDS = [
    "not them",
    "not (all and any)",
    "not 1 of them",
    "not all of all",
    "not any of any*",
    "not (them or 1 of selection_*)",
    "not all of them and not them",
    "not of",
    "not 1 of of",
]


def show_error(e: Exception) -> str:
    return f"{type(e).__module__}.{type(e).__name__}: {e}"


def child() -> None:
    import random

    random.seed(int(sys.argv[2]))

    from sigma import filters
    from sigma.backends.test import TextQueryTestBackend
    from sigma.collection import SigmaCollection
    from sigma.filters import SigmaFilter
    from sigma.rule import SigmaRule

    drawn = []  # every prefix candidate that was drawn
    real_choices = random.choices
    forced = []  # candidates returned before real random draws are used

    def choices(population, *args, **kwargs):
        if forced:
            result = list(forced.pop(0))
        else:
            result = real_choices(population, *args, **kwargs)
        drawn.append(("".join(result), population, args, tuple(sorted(kwargs.items()))))
        return result

    filters.random.choices = choices  # the random module itself: seen by all its users

    seen = {}

    def normalise(text: str) -> str:
        def number(match):
            return "_filt_<%d>" % seen.setdefault(match.group(0), len(seen) + 1)

        return re.sub(r"_filt_[a-z]{10}", number, text)

    def rule(n=1, detections=DETECTIONS_PLAIN, condition="selection and not other"):
        return SigmaRule.from_yaml(
            RULE.format(n=n, detections=detections.strip("\n"), condition=condition)
        )

    def sigma_filter(
        condition,
        detections=FILTER_DETECTIONS,
        rules="any",
        logsource="product: windows",
        title="f",
    ):
        return SigmaFilter.from_yaml(
            FILTER.format(
                title=title,
                logsource=logsource,
                rules=rules,
                detections=detections.strip("\n"),
                condition=condition,
            )
        )

    def report(r, before=None):
        """Detections, conditions and queries of a rule after filters were applied."""
        seen.clear()
        print("   detections:", [normalise(str(name)) for name in r.detection.detections])
        print("   condition :", [normalise(c) for c in r.detection.condition])
        try:
            for query in TextQueryTestBackend().convert_rule(r):
                assert "_filt_" not in query, query
                print("   query     :", query)
        except Exception as e:
            print("   conversion error:", normalise(show_error(e)))

    def apply(f, r):
        calls = len(drawn)
        try:
            result = f.apply_on_rule(r)
            print("   returned the rule object:", result is r, "- prefixes drawn:", len(drawn) - calls)
        except Exception as e:
            seen.clear()
            print("   error:", normalise(show_error(e)), "- prefixes drawn:", len(drawn) - calls)
        return r

    print("== one filter, different conditions")
    for detections, conditions in (
        (FILTER_DETECTIONS, FILTER_CONDITIONS),
        (FILTER_DETECTIONS_KEYWORDS, FILTER_CONDITIONS_KEYWORDS),
    ):
        for condition in conditions:
            print(repr(condition))
            try:
                f = sigma_filter(condition, detections)
            except Exception as e:
                print("   filter error:", show_error(e))
                continue
            report(apply(f, rule()))

    print("== rule with a list of conditions, two filters one after the other")
    r = rule(condition="[selection, 'selection and not other', 1 of them]")
    apply(sigma_filter("not 1 of selection_*", title="first"), r)
    apply(sigma_filter("not any of them", title="second"), r)
    report(r)

    print("== prefixes that are taken already are drawn again")
    taken = DETECTIONS_PLAIN + "    _filt_aaaaaaaaaa_x:\n        F: 1\n    _filt_bbbbbbbbbb_:\n        G: 2\n"
    taken += "    _filt_cccccccccc:\n        H: 3\n    _filt_ddddddddddd_y:\n        I: 4\n"
    r = rule(detections=taken, condition="selection and not other")
    forced[:] = ["aaaaaaaaaa", "bbbbbbbbbb", "aaaaaaaaaa", "cccccccccc"]
    apply(sigma_filter("not 1 of selection_*"), r)
    print("   candidates:", [d[0] for d in drawn[-4:]])
    print("   chosen cccccccccc:", "_filt_cccccccccc_selection_a" in r.detection.detections)
    report(r)
    r = rule(detections=taken, condition="selection and not other")
    forced[:] = ["dddddddddd"]
    apply(sigma_filter("not them", FILTER_DETECTIONS_KEYWORDS), r)
    print("   chosen dddddddddd:", "_filt_dddddddddd_them" in r.detection.detections)
    report(r)

    print("== filters that don't apply")
    for f in (
        sigma_filter("not selection_a", logsource="product: linux"),
        sigma_filter("not selection_a", rules="[rule_7, 00000000-0000-0000-0000-000000000009]"),
    ):
        report(apply(f, rule()))
    print("== filters for rules referenced by name or id")
    for f in (
        sigma_filter("not selection_a", rules="[rule_7, rule_1]"),
        sigma_filter("not selection_a", rules="00000000-0000-0000-0000-000000000001"),
    ):
        report(apply(f, rule()))

    print("== filter without condition")
    f = sigma_filter("not selection_a")
    f.filter.condition = []
    r = rule()
    apply(f, r)
    seen.clear()
    print("   detections:", [normalise(str(name)) for name in r.detection.detections])
    print("   condition :", r.detection.condition)

    print("== collection with filters and a correlation rule")
    collection = SigmaCollection.from_yaml(
        "\n---\n".join(
            [
                RULE.format(n=1, detections=DETECTIONS_PLAIN.strip("\n"), condition="selection"),
                RULE.format(n=2, detections=DETECTIONS_PLAIN.strip("\n"), condition="1 of them"),
                """
title: Correlation
name: corr
correlation:
    type: event_count
    rules: [rule_1, rule_2]
    group-by: [User]
    timespan: 5m
    condition:
        gte: 10
""",
                FILTER.format(
                    title="a",
                    logsource="product: windows",
                    rules="any",
                    detections=FILTER_DETECTIONS.strip("\n"),
                    condition="not 1 of selection_*",
                ),
                FILTER.format(
                    title="b",
                    logsource="category: process_creation",
                    rules="[rule_2]",
                    detections=FILTER_DETECTIONS_KEYWORDS.strip("\n"),
                    condition="not (them or all of selection_*)",
                ),
            ]
        )
    )
    for r in collection.rules:
        print(type(r).__name__, r.title)
        if isinstance(r, SigmaRule):
            seen.clear()
            print("   condition :", [normalise(c) for c in r.detection.condition])
    try:
        for query in TextQueryTestBackend().convert(collection):
            assert "_filt_" not in query, query
            print("   query     :", query)
    except Exception as e:
        print("   conversion error:", normalise(show_error(e)))

    print("== arguments of all random draws:", sorted({repr(d[1:]) for d in drawn}))
    print("== number of draws:", len(drawn))
    print("#### raw ####")
    print([d[0] for d in drawn])


def main() -> None:
    outputs = {}
    for hashseed in ("0", "1", "4242", "random"):
        for randseed in ("1", "2", "31337"):
            env = dict(os.environ, PYTHONHASHSEED=hashseed)
            result = subprocess.run(
                [sys.executable, __file__, "child", randseed],
                env=env,
                capture_output=True,
                text=True,
            )
            if result.returncode != 0:
                print(result.stdout)
                print(result.stderr)
                sys.exit(1)
            outputs[(hashseed, randseed)] = result.stdout.split("#### raw ####\n")
    first = next(iter(outputs.values()))[0]
    print(first)
    ok = True
    for key, (out, raw) in outputs.items():
        same = out == first
        ok = ok and same
        print(key, hashlib.sha256(out.encode()).hexdigest(), "same" if same else "DIFFERENT")
    print("prefixes drawn, by seed of the random module:")
    for randseed in ("1", "2", "31337"):
        raws = {raw for (_, rs), (_, raw) in outputs.items() if rs == randseed}
        ok = ok and len(raws) == 1
        for raw in sorted(raws):
            print(randseed, hashlib.sha256(raw.encode()).hexdigest(), raw.strip()[:150], "...")
    if not ok:
        sys.exit(2)


if __name__ == "__main__":
    if len(sys.argv) > 1 and sys.argv[1] == "child":
        child()
    else:
        main()
