"""Demo for C01/t5: selection of the string operator by wildcard position (plain and case-sensitive)."""
import sys
from typing import ClassVar

from sigma.backends.test import TextQueryTestBackend
from sigma.collection import SigmaCollection
from sigma.conditions import ConditionFieldEqualsValueExpression
from sigma.conversion.state import ConversionState
from sigma.types import SigmaCasedString, SigmaNumber, SigmaString


class Default(TextQueryTestBackend):
    pass


class NoShortcuts(TextQueryTestBackend):
    startswith_expression: ClassVar[None] = None
    endswith_expression: ClassVar[None] = None
    contains_expression: ClassVar[None] = None
    case_sensitive_startswith_expression: ClassVar[None] = None
    case_sensitive_endswith_expression: ClassVar[None] = None
    case_sensitive_contains_expression: ClassVar[None] = None


class NoWildcardMatch(TextQueryTestBackend):
    wildcard_match_expression: ClassVar[None] = None
    endswith_expression: ClassVar[None] = None
    case_sensitive_contains_expression: ClassVar[None] = None


class AllowSpecial(TextQueryTestBackend):
    startswith_expression_allow_special: ClassVar[bool] = True
    endswith_expression_allow_special: ClassVar[bool] = True
    contains_expression_allow_special: ClassVar[bool] = True
    case_sensitive_startswith_expression_allow_special: ClassVar[bool] = True
    case_sensitive_endswith_expression_allow_special: ClassVar[bool] = True
    case_sensitive_contains_expression_allow_special: ClassVar[bool] = True


class AllowSpecialContainsOnly(TextQueryTestBackend):
    contains_expression_allow_special: ClassVar[bool] = True
    case_sensitive_endswith_expression_allow_special: ClassVar[bool] = True


class NoCaseSensitive(TextQueryTestBackend):
    case_sensitive_match_expression = None
    case_sensitive_startswith_expression: ClassVar[None] = None
    case_sensitive_endswith_expression: ClassVar[None] = None


class RegexTemplates(TextQueryTestBackend):
    """Templates that use the {regex} placeholder instead of {value}."""

    startswith_expression: ClassVar[str] = "{field}=~/^{regex}/"
    contains_expression: ClassVar[str] = "{field}=~/{regex}/"
    case_sensitive_match_expression = "{field}=~/(?-i){regex}/"


class NotEq(TextQueryTestBackend):
    convert_not_as_not_eq: ClassVar[bool] = True
    not_eq_token: ClassVar[str] = "!="
    not_startswith_expression: ClassVar[str] = "{field} not_startswith {value}"
    not_contains_expression: ClassVar[str] = "{field} not_contains {value}"
    case_sensitive_not_endswith_expression: ClassVar[str] = "{field} not_endswith_cased {value}"


BACKENDS = (
    Default,
    NoShortcuts,
    NoWildcardMatch,
    AllowSpecial,
    AllowSpecialContainsOnly,
    NoCaseSensitive,
    RegexTemplates,
    NotEq,
)

# Strings in Sigma notation (wildcards * and ?, escaped with backslash)
STRINGS = [
    "",
    "plain",
    "*",
    "**",
    "?",
    "*?",
    "?*",
    "pre*",
    "*post",
    "*mid*",
    "a*b",
    "a?b",
    "pre?x*",
    "*x?post",
    "*a*b*",
    "*a?b*",
    "*a*b",
    "a*b*",
    "***",
    "?pre*",
    "*post?",
    "pre\\*",
    "\\*post",
    "\\*mid\\*",
    "pre\\\\*",
    "*\\?*",
    'quo"te*',
    "*sp ace:and&filtered",
    "*äöü*",
    " *",
]


def show(label, fn):
    try:
        result = fn()
    except Exception as e:  # class and message are part of the observed behaviour
        result = f"{e.__class__.__name__}: {e}"
    print(f"{label:45} -> {result!r}")


def rule(detection_lines, condition):
    return f"""
title: Test
status: test
logsource:
    category: test_category
    product: test_product
detection:
{detection_lines}
    condition: {condition}
"""


def main():
    for backend_class in BACKENDS:
        print(f"=== {backend_class.__name__}")
        backend = backend_class()
        state = ConversionState()
        for s in STRINGS:
            for value_class in (SigmaString, SigmaCasedString):
                cond = ConditionFieldEqualsValueExpression("field name", value_class(s))
                show(
                    f"{value_class.__name__}({s!r}) direct",
                    lambda: (
                        backend.convert_condition_field_eq_val_str(cond, state)
                        if value_class is SigmaString
                        else backend.convert_condition_field_eq_val_str_case_sensitive(cond, state)
                    ),
                )
                show(
                    f"{value_class.__name__}({s!r}) dispatched",
                    lambda: backend.convert_condition(cond, state),
                )
        # wrong value type: TypeError raised before the selection
        num_cond = ConditionFieldEqualsValueExpression("f", SigmaNumber(1))
        show("number as str", lambda: backend.convert_condition_field_eq_val_str(num_cond, state))
        show(
            "number as cased str",
            lambda: backend.convert_condition_field_eq_val_str_case_sensitive(num_cond, state),
        )

        # whole rules: modifiers, negation, lists
        detection = """
    sel:
        fieldA|startswith: pre
        fieldB|endswith: "po?st"
        fieldC|contains:
            - mid
            - "m*d"
        fieldD|cased|contains: Mid
        fieldE|cased: "Ca*se"
        fieldF: "*"
        fieldG|cased|startswith: "P?re"
        fieldH|cased|endswith: "Po?st"
    filt:
        fieldA|contains: x
        fieldB|startswith: y
        fieldC|cased|endswith: Z
        fieldD|endswith: w"""
        for condition in ("sel", "not sel", "sel and not filt", "not (sel or filt)"):
            show(
                f"rule: {condition}",
                lambda: backend_class().convert(
                    SigmaCollection.from_yaml(rule(detection, condition))
                ),
            )
    return 0


if __name__ == "__main__":
    sys.exit(main())
