"""Demo for t3: conditions added by add_condition transformations get random internal names; the
queries don't depend on them (nor on the hash seed) and never contain them.
Run: PYTHONPATH=/tmp/wt5-C20 /venv/bin/python demo.py"""

import hashlib
import os
import re
import subprocess
import sys

CHILD = "--child" in sys.argv

PIPELINE = """
name: add conditions
priority: 10
transformations:
  - id: plain
    type: add_condition
    conditions:
      index: main
      source: [a, b]
  - id: templated
    type: add_condition
    template: true
    conditions:
      cat: "$category"
      where: ["$product-$service", "literal $$ $unknown ${category}x", 5]
      number: 7
      broken: "$"
  - id: negated
    type: add_condition
    negated: true
    conditions:
      noise: "yes"
    rule_conditions:
      - type: logsource
        product: windows
  - id: named
    type: add_condition
    name: fixed_name
    template: true
    conditions:
      named: "$product"
"""

EMPTY_PIPELINE = """
name: empty condition
priority: 10
transformations:
  - id: empty
    type: add_condition
    template: true
    conditions: {}
"""

RULES = """
title: one
status: test
logsource: {category: process_creation, product: windows, service: sysmon}
detection:
    sel:
        fieldA: v
    condition: sel
---
title: two conditions
status: test
logsource: {category: web}
detection:
    sel1:
        fieldA|re|i: 'x.*y'
    sel2:
        fieldB: [1, 2]
    condition:
        - sel1
        - sel1 and not sel2
---
title: base
name: base_rule
status: test
logsource: {product: windows}
detection:
    sel:
        fieldA: c
    condition: sel
---
title: corr
status: test
correlation:
    type: event_count
    rules: [base_rule]
    group-by: [fieldA]
    timespan: 5m
    condition: {gte: 3}
"""


def child() -> None:
    import random

    from sigma.backends.test import TextQueryTestBackend
    from sigma.collection import SigmaCollection
    from sigma.conditions import SigmaCondition
    from sigma.exceptions import SigmaError
    from sigma.processing.pipeline import ProcessingPipeline
    from sigma.processing.transformations import AddConditionTransformation
    from sigma.rule import SigmaDetections

    rseed = sys.argv[sys.argv.index("--child") + 1]
    if rseed != "none":
        random.seed(int(rseed))

    # 1. names drawn from the random module (same draws for the same random seed)
    names = [AddConditionTransformation({"a": 1}).name for _ in range(3)]
    shown = names if rseed != "none" else ["<unseeded>"] * 3
    print("names", shown, [bool(re.fullmatch(r"_cond_[a-z]{10}", n)) for n in names])
    print("next random value", random.random() if rseed != "none" else "<unseeded>")
    print("explicit", AddConditionTransformation({"a": 1}, "my", True, True))
    print("equal regardless of name", AddConditionTransformation({"a": 1}) == AddConditionTransformation({"a": 1}))

    # 2. apply_condition on condition strings
    dets = SigmaDetections.from_dict({"sel": {"a": 1}, "condition": "sel"})
    for name in ("n1", "", 5):
        for negated in (False, True):
            for text in ("sel", "", "a or b", "1 of sel*", "(x)", " "):
                t = AddConditionTransformation({"a": 1}, name, negated=negated)  # type: ignore
                c = SigmaCondition(text, dets)
                try:
                    t.apply_condition(c)
                    print("apply_condition", repr(name), negated, repr(text), "->", repr(c.condition))
                except Exception as e:
                    print("apply_condition", repr(name), negated, repr(text), "->", type(e).__name__, e)

    # 3. conversion
    backend = TextQueryTestBackend(ProcessingPipeline.from_yaml(PIPELINE), collect_errors=True)
    rules = SigmaCollection.from_yaml(RULES)
    output = []
    try:
        for q in backend.convert(rules):
            output.append(str(q))
            print("query", q)
    except SigmaError as e:
        print("raised", type(e).__name__, e)
    for rule, err in backend.errors:
        output.append(str(err))
        print("error", rule.title, type(err).__name__, err)
    print("internal names in output:", [o for o in output if "_cond_" in o])
    for rule in rules.rules:
        det = getattr(rule, "detection", None)
        if det is not None:
            keys = [re.sub(r"^_cond_[a-z]{10}$", "_cond_<random>", k) for k in det.detections]
            conds = [re.sub(r"_cond_[a-z]{10}", "_cond_<random>", c.condition) for c in det.parsed_condition]
            print("rule", rule.title, keys, conds)
            for k, d in det.detections.items():
                if k.startswith("_cond_") or k == "fixed_name":
                    print("   added", re.sub(r"^_cond_[a-z]{10}$", "_cond_<random>", k), d.to_plain(),
                          [sorted(i.applied_processing_items) for i in d.detection_items])

    # 4. an add_condition transformation without conditions: error record
    backend = TextQueryTestBackend(ProcessingPipeline.from_yaml(EMPTY_PIPELINE), collect_errors=True)
    rules = SigmaCollection.from_yaml(RULES)
    print("empty: queries", backend.convert(rules))
    for rule, err in backend.errors:
        text = re.sub(r"_cond_[a-z]{10}", "_cond_<random>", str(err))
        print("empty: error", rule.title, type(err).__name__, text[:120], hashlib.sha256(text.encode()).hexdigest()[:16])


def main() -> None:
    runs = [("0", "1"), ("1", "1"), ("2", "7"), ("17", "7"), ("4242", "123456"), ("99999", "none"), ("5", "none")]
    outputs = {}
    for hseed, rseed in runs:
        env = dict(os.environ, PYTHONHASHSEED=hseed)
        out = subprocess.run(
            [sys.executable, os.path.abspath(__file__), "--child", rseed],
            env=env,
            capture_output=True,
            text=True,
        )
        if out.returncode != 0:
            print(out.stdout, out.stderr)
            sys.exit(1)
        outputs[(hseed, rseed)] = out.stdout
    for index, ((hseed, rseed), text) in enumerate(outputs.items()):
        print(f"===== PYTHONHASHSEED={hseed} random.seed={rseed}")
        if index == 0:  # full output once, then only the lines that depend on the random seed
            print(text, end="")
        else:
            print("".join(l for l in text.splitlines(True) if l.startswith(("names", "next random"))), end="")
    print("=====")
    digests = set()
    for (hseed, rseed), text in outputs.items():
        observable = "".join(l for l in text.splitlines(True) if not l.startswith(("names", "next random")))
        d = hashlib.sha256(observable.encode()).hexdigest()
        digests.add(d)
        print("PYTHONHASHSEED", hseed, "random.seed", rseed, "full", hashlib.sha256(text.encode()).hexdigest()[:16],
              "queries/errors/conditions", d[:16])
    if len(digests) != 1:
        print("OUTPUT DEPENDS ON HASH SEED OR RANDOM SEED")
        sys.exit(1)
    print("queries, errors and rewritten conditions agree for all hash seeds and random seeds")


if __name__ == "__main__":
    child() if CHILD else main()
