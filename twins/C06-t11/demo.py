"""
Serialisation of rules after a pipeline transformation: the detection item walkers of
DetectionItemTransformation / ValueTransformation decide whether a changed item keeps an
original_value in sync (still serialisable) or is marked as not convertible to plain (to_dict()
fails with a Sigma error). Also plain round trips without pipelines for rules, correlations, filters.
"""

import json
from dataclasses import dataclass

import yaml

from sigma.backends.test import TextQueryTestBackend
from sigma.collection import SigmaCollection
from sigma.correlations import SigmaCorrelationRule
from sigma.exceptions import SigmaError
from sigma.filters import SigmaFilter
from sigma.processing.conditions import (
    IncludeFieldCondition,
    MatchStringCondition,
)
from sigma.processing.pipeline import ProcessingItem, ProcessingPipeline
from sigma.processing.transformations import (
    AddFieldnamePrefixTransformation,
    AddFieldnameSuffixTransformation,
    CaseTransformation,
    ConvertTypeTransformation,
    DropDetectionItemTransformation,
    FieldMappingTransformation,
    HashesFieldsDetectionItemTransformation,
    MapStringTransformation,
    RegexTransformation,
    ReplaceStringTransformation,
    SetValueTransformation,
)
from sigma.processing.transformations.base import (
    DetectionItemTransformation,
    ValueTransformation,
)
from sigma.rule import SigmaDetectionItem, SigmaRule
from sigma.types import SigmaNumber, SigmaString, SigmaType

RULES = {
    "plain_map": """
title: Plain map
id: 0f3a1a0e-6f3c-4f2f-8d4c-0f2b4a3c9d01
status: test
date: 2024-05-17
modified: 2024/06/01
tags: [attack.t1059, attack.execution]
logsource: {category: process_creation, product: windows}
detection:
    sel:
        Image: 'C:\\Windows\\cmd.exe'
        CommandLine|contains: ['whoami', 'net user']
        EventID: 4688
    condition: sel
""",
    "modifier_chains": """
title: Modifier chains
logsource: {category: test}
detection:
    sel:
        a|contains|all: [foo, bar]
        b|re|i: 'ab+c.*'
        c|base64offset|contains: secret
        d|cased|startswith: MixedCase
        e|windash|contains: ' -enc '
        f|cidr: 10.0.0.0/8
        g|gte: 5
        h|exists: true
        i: null
        j|fieldref: k
    condition: sel
""",
    "nested_lists": """
title: Nested lists and keywords
logsource: {product: linux}
detection:
    keywords:
        - alpha
        - 'be*ta'
        - 3
    maps:
        - Image|endswith: '\\a.exe'
          User: admin
        - Image|endswith: '\\b.exe'
        - plainkeyword
    empty_list:
        field: []
    sel:
        Hashes|contains: ['MD5=0123456789abcdef0123456789abcdef', 'SHA1=0123456789abcdef0123456789abcdef01234567']
    condition:
        - keywords or 1 of maps
        - sel and not empty_list
""",
    "wildcards_escapes": """
title: Wildcards and escapes
logsource: {category: test}
custom: {x: 1, y: [a, b]}
detection:
    sel:
        path: 'C:\\*\\te?t\\\\x'
        lit: 'a\\*b\\?c'
        num_str: '123'
        flag: false
        mixed: [1, 'one', 1.5, true, null]
    condition: sel
""",
}

CORRELATION = """
title: Base one
name: base_one
logsource: {category: test}
detection:
    sel: {user: foo}
    condition: sel
---
title: Base two
name: base_two
logsource: {category: test}
detection:
    sel: {account: bar}
    condition: sel
---
title: Correlated
name: corr
correlation:
    type: value_count
    rules: [base_one, base_two]
    group-by: [who]
    timespan: 15m
    aliases:
        who: {base_one: user, base_two: account}
    condition: {gte: 3, field: src}
"""

FILTER = """
title: Filter admins
logsource: {category: test}
filter:
    rules: [base_one]
    sel:
        user|startswith: adm_
    condition: not sel
"""


@dataclass
class NumberDoubler(ValueTransformation):
    """Value transformation returning lists and single values of another type."""

    def apply_value(self, field: str | None, val: SigmaNumber):
        if val.number == 4688:
            return [SigmaNumber(1), SigmaNumber(2)]
        return SigmaString(str(val.number * 2))


@dataclass
class AnyValueMarker(ValueTransformation):
    """Value transformation without a type annotation: all value types are offered."""

    def apply_value(self, field, val):
        if isinstance(val, SigmaString) and not val.contains_special():
            return SigmaString("<" + str(val) + ">")
        return None


@dataclass
class ItemReplacer(DetectionItemTransformation):
    """Detection item transformation: replaces some items by new ones, changes others in place."""

    def apply_detection_item(self, detection_item):
        if detection_item.field == "User":
            return SigmaDetectionItem("Account", [], [SigmaString("root")])
        if detection_item.field == "EventID":
            detection_item.field = "event_id"  # in place, no replacement returned
            return None
        if detection_item.field is None:
            return SigmaDetectionItem.from_mapping("msg|contains", "kw")
        return None


def item(transformation, conditions=(), **kwargs):
    return ProcessingItem(
        transformation,
        detection_item_conditions=[c for c in conditions if isinstance(c, MatchStringCondition)],
        field_name_conditions=[c for c in conditions if isinstance(c, IncludeFieldCondition)],
        identifier="it",
        **kwargs,
    )


PIPELINES = {
    "none": lambda: ProcessingPipeline([]),
    "replace_all": lambda: ProcessingPipeline([item(ReplaceStringTransformation("a", "A"))]),
    "replace_nomatch": lambda: ProcessingPipeline(
        [item(ReplaceStringTransformation("zzzzqqq", "A"))]
    ),
    "replace_cond_field": lambda: ProcessingPipeline(
        [
            item(
                ReplaceStringTransformation("e", "E"),
                [IncludeFieldCondition(["Image", "a", "path", "user"])],
            )
        ]
    ),
    "replace_cond_string": lambda: ProcessingPipeline(
        [item(CaseTransformation("upper"), [MatchStringCondition(cond="any", pattern=".*o.*")])]
    ),
    "both_conditions_negated": lambda: ProcessingPipeline(
        [
            item(
                ReplaceStringTransformation("a", "@"),
                [
                    MatchStringCondition(cond="all", pattern="^[a-z ]+$"),
                    IncludeFieldCondition(["CommandLine", "a", "user"]),
                ],
                detection_item_condition_negation=True,
            )
        ]
    ),
    "case_upper": lambda: ProcessingPipeline([item(CaseTransformation("upper"))]),
    "map_string": lambda: ProcessingPipeline(
        [item(MapStringTransformation({"whoami": ["id", "who"], "admin": "root", "foo": []}))]
    ),
    "regex_brackets": lambda: ProcessingPipeline([item(RegexTransformation())]),
    "set_value": lambda: ProcessingPipeline(
        [item(SetValueTransformation("fixed"), [IncludeFieldCondition(["EventID", "g", "num_str"])])]
    ),
    "convert_str": lambda: ProcessingPipeline([item(ConvertTypeTransformation("str"))]),
    "convert_num": lambda: ProcessingPipeline(
        [item(ConvertTypeTransformation("num"), [IncludeFieldCondition(["num_str", "EventID"])])]
    ),
    "number_doubler": lambda: ProcessingPipeline([item(NumberDoubler())]),
    "any_marker": lambda: ProcessingPipeline([item(AnyValueMarker())]),
    "item_replacer": lambda: ProcessingPipeline([item(ItemReplacer())]),
    "drop_items": lambda: ProcessingPipeline(
        [
            item(
                DropDetectionItemTransformation(),
                [IncludeFieldCondition(["EventID", "User", "i", "flag"])],
            )
        ]
    ),
    "hashes": lambda: ProcessingPipeline(
        [item(HashesFieldsDetectionItemTransformation(["MD5", "SHA1"], field_prefix="File"))]
    ),
    "field_mapping_1to1": lambda: ProcessingPipeline(
        [item(FieldMappingTransformation({"Image": "process.executable", "user": "user.name"}))]
    ),
    "field_mapping_1ton": lambda: ProcessingPipeline(
        [item(FieldMappingTransformation({"Image": ["exe", "path"], "k": "kk"}))]
    ),
    "field_prefix": lambda: ProcessingPipeline([item(AddFieldnamePrefixTransformation("win."))]),
    "field_suffix_cond": lambda: ProcessingPipeline(
        [item(AddFieldnameSuffixTransformation(".kw"), [IncludeFieldCondition(["Image", "a"])])]
    ),
    "two_steps": lambda: ProcessingPipeline(
        [
            item(ReplaceStringTransformation("o", "0")),
            ProcessingItem(CaseTransformation("upper"), identifier="second"),
        ]
    ),
}


def show(value):
    return json.dumps(value, sort_keys=True, default=repr)


def describe_items(detection, depth=0):
    """original_value state of all detection items after the pipeline."""
    out = []
    for di in detection.detection_items:
        if hasattr(di, "detection_items"):
            out.append(describe_items(di, depth + 1))
        else:
            out.append(
                (
                    di.field,
                    [m.__name__ for m in di.modifiers],
                    [repr(v) for v in di.value],
                    None if di.original_value is None else [repr(v) for v in di.original_value],
                    sorted(di.applied_processing_items),
                )
            )
    return out


def convert(rule):
    try:
        return TextQueryTestBackend().convert_rule(rule)
    except Exception as e:  # noqa
        return f"{type(e).__name__}: {e}"


def attempt(label, func):
    try:
        print(label, "->", show(func()))
    except SigmaError as e:
        print(label, "-> SigmaError", type(e).__name__, str(e))
    except Exception as e:  # noqa
        print(label, "-> OTHER", type(e).__name__, str(e))


def main():
    # 1. plain round trips
    for name, text in RULES.items():
        rule = SigmaRule.from_yaml(text)
        d = rule.to_dict()
        print("RULE", name, show(d))
        again = SigmaRule.from_dict(d)
        print("  same object:", again == rule, "same dict:", again.to_dict() == d)
        y = yaml.safe_dump(d)
        print("  yaml same dict:", SigmaRule.from_yaml(y).to_dict() == d)
        print("  queries:", convert(rule), "|", convert(again))

    coll = SigmaCollection.from_yaml(CORRELATION)
    for r in coll.rules:
        d = r.to_dict()
        print("COLL", type(r).__name__, show(d))
        again = type(r).from_dict(d)
        print("  same dict:", again.to_dict() == d)
    corr = [r for r in coll.rules if isinstance(r, SigmaCorrelationRule)][0]
    print("  corr yaml:", SigmaCorrelationRule.from_yaml(yaml.safe_dump(corr.to_dict())).to_dict() == corr.to_dict())

    flt = SigmaFilter.from_yaml(FILTER)
    d = flt.to_dict()
    print("FILTER", show(d))
    print("  same dict:", SigmaFilter.from_dict(d).to_dict() == d)

    # 2. serialisation after one pipeline transformation
    for pname, factory in PIPELINES.items():
        for rname, text in RULES.items():
            rule = SigmaRule.from_yaml(text)
            pipeline = factory()
            try:
                pipeline.apply(rule)
            except SigmaError as e:
                print("PIPE", pname, rname, "apply failed:", type(e).__name__, str(e))
                continue
            except Exception as e:  # noqa
                print("PIPE", pname, rname, "apply failed (other):", type(e).__name__, str(e))
                continue
            print("PIPE", pname, rname)
            for dname, detection in rule.detection.detections.items():
                print("   items", dname, show(describe_items(detection)))
            print("   applied:", sorted(rule.applied_processing_items))
            attempt("   to_dict", rule.to_dict)

            def reload():
                d = rule.to_dict()
                again = SigmaRule.from_dict(d)
                return [again.to_dict() == d, convert(again), convert(rule)]

            attempt("   reload", reload)

    # 3. transformations used directly, without a processing item
    for tname, t in (
        ("replace", ReplaceStringTransformation("i", "I")),
        ("doubler", NumberDoubler()),
        ("replacer", ItemReplacer()),
    ):
        rule = SigmaRule.from_yaml(RULES["plain_map"])
        t.apply(rule)
        print("DIRECT", tname, show(describe_items(rule.detection.detections["sel"])))
        attempt("   to_dict", lambda: rule.to_dict()["detection"])


if __name__ == "__main__":
    main()
