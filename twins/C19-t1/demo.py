"""Demo for C19 / t1: SigmaValidator.validate_rule / finalize / validate_rules (sigma/validation.py).

Runs sets of built-in validators over small collections, in several rule orders and with exclusion
tables, and prints the issues plus a purity check (to_dict and converted queries before/after).
"""
import copy
import sys
from pathlib import Path
from uuid import UUID

from sigma.backends.test import TextQueryTestBackend
from sigma.collection import SigmaCollection
from sigma.exceptions import SigmaConfigurationError, SigmaRuleLocation
from sigma.validation import SigmaValidator
from sigma.validators.core import validators as all_validators

ID_A = "11111111-1111-4111-8111-111111111111"
ID_B = "22222222-2222-4222-8222-222222222222"
ID_C = "33333333-3333-4333-8333-333333333333"

RULES = f"""
title: Rule One
id: {ID_A}
status: test
logsource:
    category: process_creation
    product: windows
detection:
    selection_img:
        Image|endswith: '\\cmd.exe'
    selection_cli:
        CommandLine|contains: 'whoami'
    unused:
        User: admin
    condition: all of selection_*
---
title: Rule One
id: {ID_A}
logsource:
    category: process_creation
detection:
    sel:
        fieldA: valueA
    _hidden:
        fieldB: valueB
    condition: sel and 1 of filter_*
---
title: Rule Three
id: {ID_B}
logsource:
    product: windows
    service: security
detection:
    selection:
        EventID: 4624
    condition: 1 of them
---
title: Rule Four without id
logsource:
    category: test
detection:
    and_sel:
        f|contains|all:
            - a
            - b
    not_used:
        g: 1
    condition: all of them or 1 of _x*
---
title: Rule Three
id: {ID_C}
logsource:
    category: test
detection:
    a:
        x: '*'
    b:
        - kw1
        - kw2
    condition:
        - a
        - 1 of b*
"""


def load():
    coll = SigmaCollection.from_yaml(RULES)
    names = ["same_name_rule.yml", "same_name_rule.yml", "x.yml", "unique_rule_file.yml", "x.yml"]
    dirs = ["d1", "d2", "d1", "d1", "d1"]
    for rule, d, n in zip(coll.rules, dirs, names):
        rule.source = SigmaRuleLocation(Path("/rules") / d / n)
    return coll


def rule_label(rule):
    return f"{rule.title}|{rule.id}|{rule.source.path}"


def issue_repr(issue):
    extra = {
        k: v for k, v in vars(issue).items() if k != "rules"
    }
    return (
        type(issue).__name__,
        tuple(rule_label(r) for r in issue.rules),
        tuple(sorted((k, str(v)) for k, v in extra.items())),
    )


def issue_key(issue):
    """Order-insensitive form: the group of rules of an issue as a sorted tuple."""
    name, rules, extra = issue_repr(issue)
    return repr((name, tuple(sorted(rules)), extra))


def snapshot(coll):
    backend = TextQueryTestBackend()
    dicts = [r.to_dict() for r in coll.rules]
    queries = []
    for r in coll.rules:
        try:
            # conversion applies the backend pipeline in place, so convert a copy
            queries.append(backend.convert_rule(copy.deepcopy(r)))
        except Exception as e:  # dangling selectors can't be converted
            queries.append(f"{type(e).__name__}: {e}")
    return dicts, queries


def run(title, validator_classes, exclusions=None, order=None, twice=False):
    coll = load()
    rules = list(coll.rules)
    if order is not None:
        rules = [rules[i] for i in order]
    before = snapshot(coll)
    v = SigmaValidator(validator_classes, exclusions or {})
    issues = v.validate_rules(iter(rules))
    after = snapshot(coll)
    print(f"== {title}")
    print("   validators:", [type(x).__name__ for x in v.validators])
    print("   pure:", before == after)
    print("   exclusion keys after run:", sorted(str(k) for k in v.exclusions.keys()))
    for i in issues:
        print("   ", issue_repr(i))
    print("   multiset (sorted):")
    for i in sorted(map(issue_key, issues)):
        print("      ", i)
    if twice:
        again = v.validate_rules(iter(rules))
        print("   second run equal:", [issue_repr(i) for i in again] == [issue_repr(i) for i in issues])
    return sorted(map(issue_key, issues))


def main():
    names = sorted(all_validators)
    print("known validators:", names)
    core = [
        all_validators[n]
        for n in (
            "dangling_detection",
            "dangling_condition",
            "identifier_uniqueness",
            "identifier_existence",
            "duplicate_title",
            "duplicate_filename",
            "them_condition_with_single_detection",
            "all_of_them_condition",
            "filename_length",
        )
    ]
    base = run("core validators, natural order", core, twice=True)
    for order in ([4, 3, 2, 1, 0], [2, 0, 4, 1, 3]):
        res = run(f"core validators, rule order {order}", core, order=order)
        print("   same multiset as natural order:", res == base)
    res = run("core validators given reversed + duplicated", list(reversed(core)) + core)
    print("   same multiset as natural order:", res == base)

    # all built-in validators (none needs network for these rules)
    everything = run("all validators", all_validators.values())
    print("   count:", len(everything))
    run("no validators", [])
    run("no validators, exclusions present", [], {UUID(ID_A): {all_validators["dangling_detection"]}})

    # exclusions: by id, for None id, for unknown id
    excl = {
        UUID(ID_A): {all_validators["dangling_detection"], all_validators["duplicate_title"]},
        None: {all_validators["identifier_existence"], all_validators["dangling_condition"]},
        UUID("99999999-9999-4999-8999-999999999999"): {all_validators["dangling_detection"]},
    }
    run("core validators with exclusions", core, excl, twice=True)
    run("core validators with exclusions, reversed rules", core, excl, order=[4, 3, 2, 1, 0])

    # single-rule API and finalize separately
    coll = load()
    v = SigmaValidator(core, {UUID(ID_B): {all_validators["them_condition_with_single_detection"]}})
    for r in coll.rules:
        print("validate_rule", rule_label(r), [issue_repr(i) for i in v.validate_rule(r)])
    print("finalize", [issue_repr(i) for i in v.finalize()])
    print("finalize again", [issue_repr(i) for i in v.finalize()])

    # from_dict / from_yaml built validator incl. exclusions in list and scalar form
    v = SigmaValidator.from_dict(
        {
            "validators": ["all", "-attacktag", "-tlptag"] if "attacktag" in all_validators else ["all"],
            "exclusions": {
                ID_A: ["dangling_detection", "identifier_uniqueness"],
                ID_C: "duplicate_title",
            },
            "config": {"filename_length": {"min_size": 6, "max_size": 15}},
        },
        all_validators,
    )
    coll = load()
    before = snapshot(coll)
    issues = v.validate_rules(iter(coll.rules))
    print("from_dict issues:")
    for i in sorted(map(repr, map(issue_repr, issues))):
        print("   ", i)
    print("from_dict pure:", before == snapshot(coll))
    try:
        SigmaValidator.from_dict({"validators": ["-nothing"]}, all_validators)
    except SigmaConfigurationError as e:
        print("error:", type(e).__name__, e)

    # validator raising in the middle: exception propagates unchanged
    class Boom(all_validators["identifier_existence"]):
        def validate(self, rule):
            raise RuntimeError("boom " + str(rule.title))

    try:
        SigmaValidator([Boom] + core).validate_rules(iter(load().rules))
    except RuntimeError as e:
        print("propagated:", type(e).__name__, e)
    try:
        SigmaValidator(core).validate_rules(iter([object()]))
    except AttributeError as e:
        print("propagated:", type(e).__name__, e)


if __name__ == "__main__":
    main()
    sys.exit(0)
