"""Round trip of rules, correlation rules and filters through to_dict()/YAML (property C06).

Prints the dict form, the reloaded dict form and the converted queries. The output has to be the
same with and without the patch of SigmaRuleBase.to_dict().
"""

import datetime as dt
import json
from uuid import UUID

import yaml

from sigma.backends.test import TextQueryTestBackend
from sigma.collection import SigmaCollection
from sigma.correlations import SigmaCorrelationRule
from sigma.exceptions import SigmaError
from sigma.filters import SigmaFilter
from sigma.rule import SigmaRule
from sigma.rule.attributes import SigmaLevel, SigmaStatus


def show(label, value):
    print(f"{label}: {json.dumps(value, sort_keys=False, default=repr)}")


def key_order(d):
    return list(d.keys())


def convert(rule):
    try:
        return TextQueryTestBackend().convert(SigmaCollection([rule]))
    except Exception as e:  # printed, has to be the same before and after
        return f"{type(e).__name__}: {e}"


DETECTION = {"sel": {"field|contains": "va*l", "other": [1, "two", None]}, "condition": "sel"}
LOGSOURCE = {"category": "process_creation", "product": "windows"}

RULES = {
    "minimal": {"title": "Minimal", "logsource": LOGSOURCE, "detection": DETECTION},
    "all metadata": {
        "title": "All metadata",
        "id": "8d9e1a2b-3c4d-4e5f-8a9b-0c1d2e3f4a5b",
        "name": "all_metadata",
        "taxonomy": "custom",
        "related": [
            {"id": "08fbc97d-0a2f-491c-ae21-8ffcfd3174e9", "type": "derived"},
            {"id": "929a690e-bef0-4204-a928-ef5e620d6fcc", "type": "obsolete"},
        ],
        "status": "experimental",
        "description": "A description\nwith two lines",
        "license": "MIT",
        "references": ["https://example.org/a", "https://example.org/b"],
        "tags": ["attack.t1059.001", "attack.execution", "cve.2024-1234", "tlp.amber"],
        "author": "Somebody, Somebody Else",
        "date": "2024-02-29",
        "modified": "2024/3/1",
        "fields": ["User", "CommandLine"],
        "falsepositives": ["Admins", "Unknown"],
        "level": "critical",
        "scope": ["server", "workstation"],
        "logsource": dict(LOGSOURCE, service="sysmon", definition="see docs"),
        "detection": DETECTION,
        "custom": "attribute",
        "another": {"nested": [1, 2, {"x": None}]},
    },
    "dates as objects": {
        "title": "Dates as objects",
        "date": dt.date(2023, 12, 31),
        "modified": dt.datetime(2024, 1, 2, 3, 4, 5),
        "logsource": LOGSOURCE,
        "detection": DETECTION,
    },
    "empty lists and none": {
        "title": "Empty lists",
        "references": [],
        "tags": [],
        "fields": None,
        "falsepositives": [],
        "scope": [],
        "related": [],
        "description": "",
        "author": "",
        "logsource": LOGSOURCE,
        "detection": DETECTION,
    },
    "custom attributes shadowing nothing": {
        "title": "Custom",
        "zzz": 1,
        "aaa": [],
        "Title": "upper case key is custom",
        "logsource": LOGSOURCE,
        "detection": {
            "a": {"f|re|i": "ab+c"},
            "b": [{"g|base64offset|contains": "x"}, {"h|cidr": "10.0.0.0/8"}],
            "k": ["keyword", "other*"],
            "condition": ["a and not b", "1 of k"],
        },
    },
}

print("=== rules ===")
for label, doc in RULES.items():
    rule = SigmaRule.from_dict(doc)
    d = rule.to_dict()
    show(label, d)
    print("  key order:", key_order(d))
    reloaded = SigmaRule.from_dict(d)
    d2 = reloaded.to_dict()
    print("  reloaded dict equal:", d2 == d, "key order equal:", key_order(d2) == key_order(d))
    from_yaml = SigmaRule.from_yaml(yaml.safe_dump(d))
    print("  yaml round trip dict equal:", from_yaml.to_dict() == d)
    print("  yaml:", json.dumps(yaml.safe_dump(d)))
    print("  queries:", convert(rule), convert(reloaded), convert(from_yaml))
    # the lists of the dict are copies
    for key in ("references", "fields", "falsepositives", "scope"):
        if key in d:
            print("  ", key, "is copy:", d[key] is not getattr(rule, key), d[key] == getattr(rule, key))

print("=== rule objects built and changed in code ===")
rule = SigmaRule.from_dict(RULES["all metadata"])
rule.id = "no uuid at all"
rule.status = SigmaStatus.DEPRECATED
rule.level = SigmaLevel.INFORMATIONAL
rule.author = 4711
rule.references = ("a", "tuple")
try:
    show("tuple as references", rule.to_dict())
except Exception as e:
    print("tuple as references:", type(e).__name__, e)
rule.references = ["https://example.org/c"]
rule.custom_attributes = {"title": "overwritten by custom attribute", "level": "low", "x": 1}
d = rule.to_dict()
show("custom attributes overwrite", d)
print("  key order:", key_order(d))
rule.custom_attributes = {}
rule.tags = None
try:
    show("tags None", rule.to_dict())
except Exception as e:
    print("tags None:", type(e).__name__, e)
rule.tags = []
rule.related = "no related object"
try:
    show("related str", rule.to_dict())
except Exception as e:
    print("related str:", type(e).__name__, e)
rule.related = None
rule.date = "2024-01-01"
try:
    show("date str", rule.to_dict())
except Exception as e:
    print("date str:", type(e).__name__, e)
rule.date = None
rule.scope = 5
try:
    show("scope int", rule.to_dict())
except Exception as e:
    print("scope int:", type(e).__name__, e)
rule.scope = None
rule.id = UUID("8d9e1a2b-3c4d-4e5f-8a9b-0c1d2e3f4a5b")
show("repaired", rule.to_dict())

print("=== rules with errors collected ===")
for label, doc in {
    "bad types": {
        "title": 5,
        "id": "not-a-uuid",
        "name": "",
        "status": "nonsense",
        "level": ["high"],
        "author": ["a", "b"],
        "description": {"a": 1},
        "license": 3,
        "date": "2024-13-45",
        "modified": "yesterday",
        "related": [{"id": "08fbc97d-0a2f-491c-ae21-8ffcfd3174e9", "type": "nope"}],
        "tags": ["attack.t1059", 5, "notag"],
        "logsource": LOGSOURCE,
        "detection": DETECTION,
    },
    "lists that are no lists": {
        "title": "No lists",
        "references": "https://example.org",
        "fields": {"a": "b"},
        "falsepositives": "none",
        "scope": "server",
        "logsource": LOGSOURCE,
        "detection": DETECTION,
    },
}.items():
    rule = SigmaRule.from_dict(doc, collect_errors=True)
    print(label, "errors:", [f"{type(e).__name__}: {e}" for e in rule.errors])
    try:
        show("  dict", rule.to_dict())
    except Exception as e:
        print("  to_dict raised", type(e).__name__, e)

print("=== correlation rules ===")
BASE = SigmaRule.from_dict(
    dict(RULES["minimal"], name="base_rule", id="0e95725d-7320-415d-80f7-004da920fc11")
)
OTHER = SigmaRule.from_dict(dict(RULES["minimal"], title="Other", name="other_rule"))
CORRELATIONS = {
    "event_count": {
        "title": "Event count",
        "id": "0e95725d-7320-415d-80f7-004da920fc12",
        "status": "test",
        "level": "high",
        "date": "2024/1/5",
        "tags": ["attack.t1110"],
        "author": "me",
        "falsepositives": ["none"],
        "correlation": {
            "type": "event_count",
            "rules": ["base_rule"],
            "group-by": ["user"],
            "timespan": "5m",
            "condition": {"gte": 10},
        },
    },
    "value_count with generate": {
        "title": "Value count",
        "name": "value_count_rule",
        "references": ["https://example.org/vc"],
        "correlation": {
            "type": "value_count",
            "rules": ["base_rule", "other_rule"],
            "generate": True,
            "group-by": ["user", "host"],
            "timespan": "1h",
            "condition": {"lt": 3, "field": "target"},
        },
        "custom_attr": ["x"],
    },
    "temporal with aliases": {
        "title": "Temporal",
        "description": "with aliases",
        "modified": "2024-06-30",
        "correlation": {
            "type": "temporal",
            "rules": ["base_rule", "other_rule"],
            "group-by": ["ip"],
            "timespan": "30s",
            "aliases": {"ip": {"base_rule": "src_ip", "other_rule": "dst_ip"}},
        },
    },
}
for label, doc in CORRELATIONS.items():
    try:
        rule = SigmaCorrelationRule.from_dict(doc)
        d = rule.to_dict()
        show(label, d)
        print("  key order:", key_order(d))
        reloaded = SigmaCorrelationRule.from_dict(d)
        print("  reloaded dict equal:", reloaded.to_dict() == d)
        from_yaml = SigmaCorrelationRule.from_yaml(yaml.safe_dump(d))
        print("  yaml round trip dict equal:", from_yaml.to_dict() == d)
        for variant in (rule, reloaded, from_yaml):
            try:
                collection = SigmaCollection(
                    [SigmaRule.from_dict(BASE.to_dict()), SigmaRule.from_dict(OTHER.to_dict()), variant]
                )
                print("  queries:", TextQueryTestBackend().convert(collection))
            except Exception as e:
                print("  conversion:", type(e).__name__, e)
    except SigmaError as e:
        print(label, "raised", type(e).__name__, e)

print("=== filters ===")
FILTERS = {
    "filter any": {
        "title": "Filter any",
        "id": "1e95725d-7320-415d-80f7-004da920fc11",
        "description": "drop admins",
        "date": "2024-01-01",
        "tags": ["attack.t1059"],
        "level": "low",
        "logsource": LOGSOURCE,
        "filter": {"rules": "any", "sel": {"User|startswith": "adm_"}, "condition": "not sel"},
    },
    "filter with references": {
        "title": "Filter refs",
        "author": "me",
        "fields": ["User"],
        "scope": ["dc"],
        "logsource": {"product": "windows"},
        "filter": {
            "rules": ["base_rule", "0e95725d-7320-415d-80f7-004da920fc11"],
            "sel_a": {"User": "a"},
            "sel_b": {"User": "b"},
            "condition": "not 1 of sel_*",
        },
        "extra": True,
    },
}
for label, doc in FILTERS.items():
    flt = SigmaFilter.from_dict(doc)
    d = flt.to_dict()
    show(label, d)
    print("  key order:", key_order(d))
    reloaded = SigmaFilter.from_dict(d)
    print("  reloaded dict equal:", reloaded.to_dict() == d)
    from_yaml = SigmaFilter.from_yaml(yaml.safe_dump(d))
    print("  yaml round trip dict equal:", from_yaml.to_dict() == d)
