# witness for C15.R6: run with /venv/bin/python; prints the two results, which differ from the fresh-object expectation
from sigma.pipelines.base import Pipeline
from sigma.processing.pipeline import ProcessingPipeline

@Pipeline
def first() -> ProcessingPipeline:
    return ProcessingPipeline(name="first")

@Pipeline
def second() -> ProcessingPipeline:
    return ProcessingPipeline(name="second")

print("first is second:", first is second)
print("first() ->", first().name, "(expected 'first')")
assert first is second and first().name == "second"
