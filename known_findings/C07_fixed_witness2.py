"""Witnesses for the C07 defects repaired after the second round of seeded changes (found by the round-2 C07 agent
on the unchanged tree, then by the extended rules C07.R1 hashing / re.compile table and C20.R5)."""
from sigma.rule import SigmaRule
from sigma.correlations import SigmaCorrelationRule
from sigma.exceptions import SigmaError, SigmaRegularExpressionError

base = {"title": "t", "logsource": {"category": "x"}, "detection": {"sel": {"a": 1}, "condition": "sel"}}
# 1. unhashable correlation type in collecting mode (was: TypeError: unhashable type: 'list')
c = SigmaCorrelationRule.from_dict({"title": "c", "correlation": {"type": [1], "rules": ["a"], "timespan": "5m", "group-by": ["x"], "condition": {"gte": 1}}}, collect_errors=True)
assert c.errors and all(isinstance(e, SigmaError) for e in c.errors)
# 2. regular expression with a too large repetition count (was: OverflowError)
d = {**base, "detection": {"sel": {"a|re": "a{99999999999999}"}, "condition": "sel"}}
r = SigmaRule.from_dict(d, collect_errors=True)
assert isinstance(r.errors[0], SigmaRegularExpressionError)
try:
    SigmaRule.from_dict(d)
    raise AssertionError("strict mode did not raise")
except SigmaRegularExpressionError:
    pass
# 3. the first collected error equals the strict error also when the message prints a null value (was: memory address)
d = {**base, "detection": {"sel": {"a|contains": None}, "condition": "sel"}}
r = SigmaRule.from_dict(d, collect_errors=True)
try:
    SigmaRule.from_dict(d)
except SigmaError as e:
    assert e == r.errors[0], (str(e), str(r.errors[0]))
    assert "0x" not in str(e)
print("OK")
