# witness for the recorded C01.R5 findings (not-equals mode; the group case is pinned by
# tests/test_conversion_base.py::test_convert_not_and_group / test_convert_not_or_group)
from sigma.collection import SigmaCollection
from sigma.backends.test import TextQueryTestBackend
class NE(TextQueryTestBackend):
    convert_not_as_not_eq = True
    not_eq_token = "!="
    not_eq_expression = "{field}{backend.not_eq_token}{value}"
def conv(dets, cond):
    r = "title: t\nlogsource: {category: x}\ndetection:\n" + dets + f"\n  condition: {cond}\n"
    return NE().convert(SigmaCollection.from_yaml(r))[0]
a = conv("  s1: {a: x}\n  s2: {b: y}", "not (s1 and s2)")
print("not (a=x and b=y)        ->", a)
assert "or" not in a            # De Morgan would need: a!=x or b!=y
b = conv("  s1: {a: 1}", "not s1")
print("not a=1 (number)         ->", b)
assert b == "a=1"               # negation lost: number template is not in the swap set
c = conv("  s1: {a: x}\n  s2: {b: y}\n  s3: {c: z}", "not (s1 and not (s2 or s3))")
print("not (a=x and not (b or c))->", c)
assert 'b!="y"' in c or "b!=" in c   # inner leaves are under two NOTs (cancel) but are rendered negated
