# witness for the recorded C12.R1 finding: replace_string converts numbers to strings even if its regex matches nothing
# (pinned by tests/test_processing_transformations.py::test_replace_string_specials, which expects SigmaString("123"))
from sigma.rule import SigmaRule
from sigma.processing.pipeline import ProcessingPipeline, ProcessingItem
from sigma.processing.transformations import ReplaceStringTransformation
from sigma.backends.test import TextQueryTestBackend

y = "title: t\nlogsource: {category: x}\ndetection:\n  sel:\n    b: 1\n  condition: sel\n"
plain = TextQueryTestBackend().convert_rule(SigmaRule.from_yaml(y))
p = ProcessingPipeline([ProcessingItem(ReplaceStringTransformation("nomatch", "X"))])
piped = TextQueryTestBackend(p).convert_rule(SigmaRule.from_yaml(y))
print(plain, piped)
assert plain == ["b=1"] and piped == ['b="1"']
print("defect present")
