# witness for the recorded C18.R2 finding: the character-wise scan over the compressed texts of the first and
# last address stops at the shorter text; for a network whose low group is zero it finds no difference.
import ipaddress
from sigma.types import SigmaCIDRExpression
pats = SigmaCIDRExpression("1234::/124").expand()
print(pats)
net = ipaddress.ip_network("1234::/124")
missed = [str(a) for a in net if not any((p.endswith("*") and str(a).startswith(p[:-1])) or str(a) == p for p in pats)]
print("addresses matched by no pattern:", missed[:4], "...", len(missed))
assert pats == ["1234::"] and len(missed) == 15
