# witness for the repaired C18.R2 defect (fix ed366ac): the character-wise scan over the compressed texts of the first and
# last address stops at the shorter text; for a network whose low group is zero it found no difference and the network
# collapsed to one address. Exit 0 + DEFECT when members of the network are matched by no pattern, exit 1 when repaired.
import ipaddress
import sys
from sigma.types import SigmaCIDRExpression
bad = 0
for cidr in ("1234::/124", "fe80::/64"):
    pats = SigmaCIDRExpression(cidr).expand()
    net = ipaddress.ip_network(cidr)
    sample = [net[i] for i in (0, 1, 5, net.num_addresses - 1)]
    missed = [str(a) for a in sample if not any((p.endswith("*") and str(a).startswith(p[:-1])) or str(a) == p for p in pats)]
    print(cidr, pats, "members matched by no pattern:", missed)
    bad += len(missed)
if bad:
    print("DEFECT: members of the network are matched by no pattern")
    sys.exit(0)
print("OK")
sys.exit(1)
