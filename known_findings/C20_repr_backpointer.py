"""C20: the message of a failing convert_type transformation embeds the repr of the transformation, which shows its
processing item, which shows the whole pipeline (back-pointers with repr on): the random '_cond_…' name of an
add_condition item and the frozenset allowed_backends end up in the error record.
Exit 0 + DEFECT when the error record differs between processes, exit 1 when repaired."""
import os, subprocess, sys

PIPE = """
name: p
priority: 10
allowed_backends: [b1, b2, b3, b4, b5]
transformations:
  - id: cond
    type: add_condition
    conditions:
      x: y
  - id: num
    type: convert_type
    target_type: num
"""
RULE = """
title: R
logsource:
    category: test
detection:
    sel:
        a: notanumber
    condition: sel
"""


def child() -> None:
    from sigma.collection import SigmaCollection
    from sigma.processing.pipeline import ProcessingPipeline
    from sigma.exceptions import SigmaError
    p = ProcessingPipeline.from_yaml(PIPE)
    c = SigmaCollection.from_yaml(RULE)
    try:
        p.apply(c.rules[0])
        print("NO ERROR")
    except SigmaError as e:
        print(type(e).__name__, str(e))


if __name__ == "__main__":
    if len(sys.argv) > 1:
        child()
        sys.exit(0)
    outs = []
    for seed in ("0", "1", "2", "3"):
        r = subprocess.run([sys.executable, __file__, "child"], env=dict(os.environ, PYTHONHASHSEED=seed), capture_output=True, text=True)
        if r.returncode != 0:
            print(r.stderr); sys.exit(2)
        outs.append(r.stdout)
    print(outs[0][:600])
    if len(set(outs)) > 1 or "_cond_" in outs[0]:
        print(f"DEFECT: {len(set(outs))} distinct error texts in {len(outs)} processes; random name leaked: {'_cond_' in outs[0]}")
        sys.exit(0)
    print("OK: same error text in all processes, no random identifier")
    sys.exit(1)
