"""Witness for the repaired C12.R1 defect (d8f6805): a replace_string that matches nothing changed the value."""
from sigma.rule import SigmaRule
from sigma.processing.pipeline import ProcessingPipeline, ProcessingItem
from sigma.processing.transformations import ReplaceStringTransformation
from sigma.backends.test import TextQueryTestBackend

y = "title: t\nlogsource: {category: x}\ndetection:\n  sel:\n    a: 'x\\\\*'\n  condition: sel\n"
plain = TextQueryTestBackend().convert_rule(SigmaRule.from_yaml(y))
p = ProcessingPipeline([ProcessingItem(ReplaceStringTransformation("nomatch", "X"))])
piped = TextQueryTestBackend(p).convert_rule(SigmaRule.from_yaml(y))
print(plain, piped)
assert plain == piped == ['a startswith "x\\"']  # was: a="x\*" (backslash + wildcard re-parsed as a literal star)
print("OK")
