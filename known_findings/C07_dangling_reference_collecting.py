# witness for the recorded C07.R2 finding: a dangling rule reference raises in collecting mode at collection level
from sigma.collection import SigmaCollection
from sigma.exceptions import SigmaRuleNotFoundError

y = """
title: c
correlation:
  type: event_count
  rules: [missing_rule]
  group-by: [u]
  timespan: 5m
  condition: {gte: 3}
"""
try:
    SigmaCollection.from_yaml(y, collect_errors=True)
    raise SystemExit("collected instead of raised: defect gone")
except SigmaRuleNotFoundError as e:
    print("raised although collect_errors=True:", e)
print("defect present")
