"""A payload that cannot be encoded (surrogate code points from YAML \\uXXXX escapes) must be rejected."""
import base64, sys
from sigma.collection import SigmaCollection
from sigma.backends.test import TextQueryTestBackend
from sigma.exceptions import SigmaError

RULE = """
title: surrogate escapes
logsource: {category: test}
detection:
    sel:
        f|%s: "%s"
    condition: sel
"""
# JSON style escape of U+1F600 (two surrogate escapes; PyYAML keeps them as two code points) and a lone one
CASES = [
    ("base64", "\\uD83D\\uDE00", "\U0001F600".encode()),
    ("base64offset|contains", "x\\uD83D\\uDE00", None),
    ("wide", "a\\uD800", None),
    ("utf16be", "a\\uD800", None),
    ("utf16", "a\\uD800", None),
    ("wide|base64offset|contains", "ab\\uDC00", None),
]
defects = []
for mod, val, okbytes in CASES:
    try:
        coll = SigmaCollection.from_yaml(RULE % (mod, val), collect_errors=True)
    except SigmaError as e:
        print(f"{mod}: raised {type(e).__name__} - a rejection, allowed")
        continue
    except Exception as e:
        defects.append(
            f"f|{mod}: \"{val}\" with collect_errors=True: {type(e).__name__} ({e}) escapes instead of a collected Sigma error"
        )
        continue
    errors = list(coll.errors) + [e for r in coll.rules for e in r.errors]
    if errors:
        print(f"{mod}: rejected with {errors[0]!r} - allowed")
        continue
    query = TextQueryTestBackend().convert(coll)
    if okbytes is not None and base64.b64encode(okbytes).decode() in query[0]:
        print(f"{mod}: encoded as the combined character - allowed")
        continue
    defects.append(f"f|{mod}: \"{val}\" accepted with query {query}")

if defects:
    print("DEFECT: " + defects[0])
    for d in defects[1:]:
        print("  also: " + d)
    sys.exit(0)
sys.exit(1)
