"""C06 / d3: after a 'regex' value transformation the detection items hold regular expressions, but
to_dict() writes them as plain string values (no 're' modifier, flags lost) instead of raising a
Sigma error. The reloaded rule matches the literal text of the regular expression."""
import sys
import yaml
from sigma.rule import SigmaRule
from sigma.collection import SigmaCollection
from sigma.backends.test import TextQueryTestBackend
from sigma.processing.pipeline import ProcessingPipeline
from sigma.exceptions import SigmaError

RULE = """
title: Test
logsource:
    category: test
detection:
    sel:
        Image: powershell.exe
        User:
            - admin
            - root
    condition: sel
"""


def pipeline(method):
    return ProcessingPipeline.from_dict(
        {
            "name": "case insensitive regex",
            "priority": 10,
            "transformations": [{"id": "re", "type": "regex", "method": method}],
        }
    )


violations = []
for method in ("ignore_case_brackets", "ignore_case_flag", "plain"):
    # meaning of the transformed rule: query of the backend run with this pipeline
    expected = TextQueryTestBackend(processing_pipeline=pipeline(method)).convert(
        SigmaCollection.from_yaml(RULE)
    )
    rule = SigmaRule.from_yaml(RULE)
    pipeline(method).apply(rule)
    try:
        d = rule.to_dict()
    except SigmaError as e:
        print(f"{method}: to_dict() refused with {type(e).__name__} (acceptable)")
        continue
    reloaded = SigmaRule.from_yaml(yaml.safe_dump(d, sort_keys=False))
    got = TextQueryTestBackend().convert(SigmaCollection([reloaded]))
    print(f"{method}: written detection {d['detection']['sel']}")
    print(f"   transformed rule : {expected}\n   reloaded rule    : {got}")
    if expected != got:
        violations.append(method)

if violations:
    print(
        "DEFECT: to_dict() after RegexTransformation emits regular expressions as plain strings; reloaded rule has another meaning (methods: "
        + ", ".join(violations)
        + ")"
    )
    sys.exit(0)
print("serialisation faithful or refused")
sys.exit(1)
