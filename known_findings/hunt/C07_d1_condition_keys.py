# C07 / d1: non-string key in a correlation condition map escapes as TypeError
from sigma.correlations import SigmaCorrelationRule
from sigma.collection import SigmaCollection
import sys
from sigma.exceptions import SigmaError


def probe(label, loader):
    """Returns list of violation strings for one document/loader."""
    problems = []
    strict_exc = None
    try:
        loader(False)
    except SigmaError as e:
        strict_exc = e
    except Exception as e:  # noqa
        problems.append(f"{label}: strict loading raised {type(e).__name__}({e}) instead of a SigmaError")
        strict_exc = e
    try:
        obj = loader(True)
    except Exception as e:  # noqa
        problems.append(f"{label}: collect_errors=True raised {type(e).__name__}({e})")
        return problems
    errors = list(obj.errors)
    if (strict_exc is not None) != bool(errors):
        problems.append(f"{label}: strict raised {strict_exc!r} but collected errors are {errors!r}")
    elif errors and isinstance(strict_exc, SigmaError) and not (errors[0] == strict_exc):
        problems.append(f"{label}: first collected error {errors[0]!r} != strict error {strict_exc!r}")
    return problems


def finish(problems):
    if problems:
        print("DEFECT: " + " | ".join(problems))
        sys.exit(0)
    print("OK: library behaves as the property says")
    sys.exit(1)

DOC = """
title: Many events
name: many_events
correlation:
    type: event_count
    rules:
        - base_rule
    group-by:
        - user
    timespan: 5m
    condition:
        gte: 10
        2: oops        # key of the wrong type (YAML int) next to a valid operator
"""

problems = []
problems += probe(
    "SigmaCorrelationRule.from_yaml", lambda c: SigmaCorrelationRule.from_yaml(DOC, collect_errors=c)
)
problems += probe(
    "SigmaCollection.from_yaml",
    lambda c: SigmaCollection.from_yaml(DOC, collect_errors=c, resolve_references=False),
)
finish(problems)
