"""
C01 witness d3: IPv6 CIDR network whose network address ends in '::' (fe80::/64, 2001:db8::/64, fc00::/64 ...) on a backend without native CIDR expression.

SigmaCIDRExpression.expand() looks for the first character in which the textual (compressed) forms
of the first and the last address of the network differ. If the first address ("fe80::") is a
textual prefix of the last one ("fe80::ffff:ffff:ffff:ffff") no difference is found inside
range(len(first)), the network is taken for a single /128 address and the query compares the field
with the network address for equality.
"""
import ipaddress
import sys

from sigma.backends.test import TextQueryTestBackend
from sigma.rule import SigmaRule

# --- tiny evaluator for the test backend's query language (standalone, no library code) ---
import re

_TOK = re.compile(
    r'\s*(?:(?P<lp>\()|(?P<rp>\))|(?P<kw>\b(?:and|or|not)\b)'
    r'|(?P<f1>\w+) (?P<op>startswith|endswith|contains) "(?P<v1>[^"]*)"'
    r'|(?P<f2>\w+)(?P<eq>!?=)"(?P<v2>[^"]*)"'
    r'|(?P<nex>not)?exists\((?P<f3>\w+)\))'
)


def _tokens(q):
    pos, out = 0, []
    while pos < len(q):
        if q[pos:].strip() == "":
            break
        m = _TOK.match(q, pos)
        if not m or m.end() == pos:
            raise SyntaxError("can't tokenize %r at %d" % (q, pos))
        pos = m.end()
        if m.group("lp"):
            out.append("(")
        elif m.group("rp"):
            out.append(")")
        elif m.group("kw"):
            out.append(m.group("kw"))
        elif m.group("f1"):
            out.append(("str", m.group("f1"), m.group("op"), m.group("v1")))
        elif m.group("f2"):
            out.append(("str", m.group("f2"), m.group("eq"), m.group("v2")))
        else:
            out.append(("exists", m.group("f3"), not m.group("nex")))
    return out


def _atom(t, event):
    if t[0] == "exists":
        return (t[1] in event) == t[2]
    _, field, op, val = t
    have = event.get(field)
    if have is None:
        return op == "!="
    have, val = have.lower(), val.lower()
    return {
        "=": have == val,
        "!=": have != val,
        "startswith": have.startswith(val),
        "endswith": have.endswith(val),
        "contains": val in have,
    }[op]


def evaluate(query, event, precedence=("not", "and", "or")):
    """Evaluate query on event; precedence lists the operators from tightest to loosest binding."""
    bp = {op: 3 - i for i, op in enumerate(precedence)}
    toks = _tokens(query)
    i = [0]

    def peek():
        return toks[i[0]] if i[0] < len(toks) else None

    def nxt():
        t = peek()
        i[0] += 1
        return t

    def expr(minbp):
        t = nxt()
        if t == "not":
            left = not expr(bp["not"])
        elif t == "(":
            left = expr(0)
            assert nxt() == ")"
        elif isinstance(t, tuple):
            left = _atom(t, event)
        else:
            raise SyntaxError("unexpected token %r in %r" % (t, query))
        while peek() in ("and", "or") and bp[peek()] >= minbp:
            op = nxt()
            right = expr(bp[op] + 1)
            left = (left and right) if op == "and" else (left or right)
        return left

    r = expr(0)
    assert peek() is None, "trailing tokens in %r" % query
    return r
# --- end of evaluator ---


class NoNativeCIDRBackend(TextQueryTestBackend):
    cidr_expression = None  # default of TextQueryBackend: CIDR is expanded to prefix matches
    convert_or_as_in = False  # default of Backend
    add_escaped = ""  # default of TextQueryBackend (the test backend escapes ':')


failures = []
for cidr, member in [
    ("fe80::/64", "fe80::1"),
    ("fe80::/64", "fe80::a00:27ff:fe4e:66a1"),
    ("2001:db8::/64", "2001:db8::dead:beef"),
    ("2001:db8:1::/64", "2001:db8:1::1"),  # control: converted to a prefix match
]:
    assert ipaddress.ip_address(member) in ipaddress.ip_network(cidr)
    rule = SigmaRule.from_dict(
        {
            "title": "t",
            "logsource": {"category": "test"},
            "detection": {"sel": {"ip|cidr": cidr}, "condition": "sel"},
        }
    )
    query = NoNativeCIDRBackend().convert_rule(rule)[0]
    event = {"ip": member}
    got = evaluate(query, event)
    print(f"{cidr}: query {query!r}; event {event} is inside the network, query says {got}")
    if got is not True:
        if f"{cidr} -> {query}" not in failures:
            failures.append(f"{cidr} -> {query}")

if failures:
    print("DEFECT: IPv6 network converted to equality with its network address: " + "; ".join(failures))
    sys.exit(0)
print("no defect: members of the networks match")
sys.exit(1)
