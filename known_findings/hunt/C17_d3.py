"""
C17 / d3: wildcard semantics of a placeholder replacement are lost in regular-expression position.
WildcardPlaceholderTransformation replaces the placeholder by the Sigma wildcard object; SigmaRegularExpression.replace_placeholders prints it as a bare '*',
which in a regular expression is a quantifier of the PRECEDING character, not "any characters".

Rule:      f|re|expand: 'abc%a%def'     pipeline: wildcard_placeholders
Expected:  a regex that matches 'abc<anything>def' (e.g. abc.*def) - or a placeholder error
Observed:  f=/abc*def/  (matches 'abdef', 'abcccdef'; does not match 'abcXYZdef')
           '%a%def' -> SigmaRegularExpressionError "nothing to repeat" (error of the wrong kind)
"""
import re
import sys

from sigma.rule import SigmaRule
from sigma.backends.test import TextQueryTestBackend
from sigma.processing.pipeline import ProcessingPipeline
from sigma.exceptions import SigmaError, SigmaPlaceholderError


def convert(value: str, pipeline: dict):
    try:
        rule = SigmaRule.from_dict(
            {
                "title": "t",
                "logsource": {"category": "test"},
                "detection": {"sel": {"f|re|expand": value}, "condition": "sel"},
            }
        )
        return TextQueryTestBackend(ProcessingPipeline.from_dict(pipeline)).convert_rule(rule)[0]
    except SigmaError as e:
        return e


def regex_of(query: str) -> str:
    m = re.fullmatch(r"f=/(.*)/", query)
    assert m, query
    return m.group(1)


wildcards = {"transformations": [{"type": "wildcard_placeholders"}]}

bad = []

# 1. wildcard placeholder in the middle of a regular expression
res = convert("abc%a%def", wildcards)
print("abc%a%def / wildcard_placeholders ->", repr(res))
if isinstance(res, str):
    rx = regex_of(res)
    should = ["abcdef", "abcXYZdef"]  # placeholder -> any characters
    should_not = ["abdef"]  # the literal 'c' is not optional
    wrong = [s for s in should if not re.fullmatch(rx, s)] + [
        s for s in should_not if re.fullmatch(rx, s)
    ]
    if wrong:
        bad.append(f"'abc%a%def' -> /{rx}/ decides wrongly for {wrong}")
elif not isinstance(res, SigmaPlaceholderError):
    bad.append(f"'abc%a%def' fails with {type(res).__name__}: {res}")

# 2. wildcard placeholder at the beginning: invalid regular expression instead of query / placeholder error
res = convert("%a%def", wildcards)
print("%a%def / wildcard_placeholders ->", repr(res))
if isinstance(res, str):
    if not re.fullmatch(regex_of(res), "XYZdef"):
        bad.append(f"'%a%def' -> {res!r} does not match 'XYZdef'")
elif not isinstance(res, SigmaPlaceholderError):
    bad.append(f"'%a%def' fails with {type(res).__name__}: {res}")

if bad:
    print("DEFECT: wildcard replacement of a placeholder inside a regular expression becomes a bare '*' quantifier: " + " | ".join(bad))
    sys.exit(0)
print("wildcard replacements keep their meaning in regular expressions")
sys.exit(1)
