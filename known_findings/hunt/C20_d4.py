"""C20 / d4: SigmaValidator keeps its validator objects in a set (and builds it from a set of names and
a set of classes), so the order of the issues returned by validate_rules() for one and the same rule
and validator configuration changes from process to process (hash of str depends on PYTHONHASHSEED,
hash of classes/instances on memory addresses)."""
import os
import subprocess
import sys

CONFIG = """
validators:
    - identifier_existence
    - invalid_modifier_combinations
    - wildcards_instead_of_modifiers
    - double_wildcard
    - dangling_detection
    - number_as_string
    - duplicate_title
"""

RULE = """
title: Sloppy rule
logsource:
    category: test
detection:
    sel:
        a|contains: "**x*"
        b: "*foo*"
        c|all: one
        d|contains|contains: dup
    unused:
        c: 1
    condition: sel
"""


def child() -> None:
    from sigma.collection import SigmaCollection
    from sigma.validation import SigmaValidator
    from sigma.validators.core import validators

    validator = SigmaValidator.from_yaml(CONFIG, validators)
    rules = SigmaCollection.from_yaml(RULE)
    for issue in validator.validate_rules(iter(rules.rules)):
        print(type(issue).__name__)


def main() -> int:
    outputs = []
    # same seed several times (address dependent hashes) and different seeds (str hashes)
    for hashseed in ("0", "0", "0", "0", "1", "2", "3", "4", "5", "6", "7", "8"):
        env = dict(os.environ, PYTHONHASHSEED=hashseed)
        p = subprocess.run([sys.executable, __file__, "child"], env=env, capture_output=True, text=True)
        if p.returncode != 0:
            print("child failed:", p.stderr)
            return 2
        outputs.append((hashseed, p.stdout))

    orders = {}
    for hashseed, out in outputs:
        orders.setdefault(tuple(out.split()), []).append(hashseed)
    for order, seeds in orders.items():
        print(f"PYTHONHASHSEED in {seeds}:")
        print("    " + " > ".join(order))
    if any(sorted(o) != sorted(next(iter(orders))) for o in orders):
        print("unexpected: different issue multisets")
        return 2
    if len(orders) > 1:
        print(
            f"DEFECT: SigmaValidator.validate_rules() returned the same {len(next(iter(orders)))} issues in "
            f"{len(orders)} different orders over {len(outputs)} process starts"
        )
        return 0
    print("OK: same issue order in all processes")
    return 1


if __name__ == "__main__":
    if len(sys.argv) > 1 and sys.argv[1] == "child":
        child()
        sys.exit(0)
    sys.exit(main())
