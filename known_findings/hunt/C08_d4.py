"""
C08 witness d4: error collection end to end. A rule set is loaded with collect_errors=True (one
document has no usable detection section, the parse error is recorded in collection.errors and the
rule object is kept with placeholder detections). Converting this collection with a collecting
backend raises AttributeError instead of recording the unconvertible rule, so the queries of all
other rules are lost.
"""
import sys

from sigma.backends.test import TextQueryTestBackend
from sigma.collection import SigmaCollection

GOOD1 = """
title: good1
status: test
logsource:
    category: test
detection:
    sel:
        fieldA: v1
    condition: sel
"""
GOOD2 = """
title: good2
status: test
logsource:
    category: test
detection:
    sel:
        fieldB: v2
    condition: sel
"""
BROKEN = {
    "no_condition": """
title: broken
status: test
logsource:
    category: test
detection:
    sel:
        f: v
""",
    "unknown_modifier": """
title: broken
status: test
logsource:
    category: test
detection:
    sel:
        f|nonexistent: v
    condition: sel
""",
    "no_detection": """
title: broken
status: test
logsource:
    category: test
""",
}

expected_others = ['mappedA="v1"', 'fieldB="v2"']
problems = []
for name, broken in BROKEN.items():
    for position in range(3):
        docs = [GOOD1, GOOD2]
        docs.insert(position, broken)
        collection = SigmaCollection.from_yaml("---".join(docs), collect_errors=True)
        assert len(collection.rules) == 3 and len(collection.errors) == 1
        backend = TextQueryTestBackend(collect_errors=True)
        try:
            result = backend.convert(collection)
        except Exception as e:
            problems.append((name, position, f"{type(e).__name__}: {e}"))
            continue
        records = [r.title for r, e in backend.errors]
        # the loader already holds the one error record of the broken rule (collection.errors / rule.errors); after the
        # repair the backend converts the placeholder to no query and adds no second record - both outcomes are accepted
        if result != expected_others or records not in (["broken"], []):
            problems.append((name, position, result, records))

if problems:
    print(
        f"DEFECT: collecting backend raises on a rule kept by the collecting loader "
        f"({len(problems)} of 9 cases), first: {problems[0]!r}"
    )
    sys.exit(0)
print("ok: unconvertible rule gives exactly one record, other queries unchanged")
sys.exit(1)
