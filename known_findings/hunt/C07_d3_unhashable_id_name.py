# C07 / d3: SigmaCollection in collecting mode raises TypeError for a rule whose name/id is a
# YAML list or map (the invalid value is kept on the rule object and used as dict key)
from sigma.collection import SigmaCollection
import sys
from sigma.exceptions import SigmaError


def probe(label, loader):
    """Returns list of violation strings for one document/loader."""
    problems = []
    strict_exc = None
    try:
        loader(False)
    except SigmaError as e:
        strict_exc = e
    except Exception as e:  # noqa
        problems.append(f"{label}: strict loading raised {type(e).__name__}({e}) instead of a SigmaError")
        strict_exc = e
    try:
        obj = loader(True)
    except Exception as e:  # noqa
        problems.append(f"{label}: collect_errors=True raised {type(e).__name__}({e})")
        return problems
    errors = list(obj.errors)
    if (strict_exc is not None) != bool(errors):
        problems.append(f"{label}: strict raised {strict_exc!r} but collected errors are {errors!r}")
    elif errors and isinstance(strict_exc, SigmaError) and not (errors[0] == strict_exc):
        problems.append(f"{label}: first collected error {errors[0]!r} != strict error {strict_exc!r}")
    return problems


def finish(problems):
    if problems:
        print("DEFECT: " + " | ".join(problems))
        sys.exit(0)
    print("OK: library behaves as the property says")
    sys.exit(1)

TEMPLATE = """
title: Base
{field}: {value}
logsource:
    category: process_creation
detection:
    sel:
        Image: a.exe
    condition: sel
"""

problems = []
for field, value in (
    ("name", "[my_rule]"),
    ("name", "{a: b}"),
    ("id", "[0e95725d-7320-415d-80f7-004da920fc11]"),
    ("id", "{a: b}"),
):
    doc = TEMPLATE.format(field=field, value=value)
    problems += probe(
        f"{field}: {value}", lambda c, doc=doc: SigmaCollection.from_yaml(doc, collect_errors=c)
    )
finish(problems)
