"""C16 witness d1: a Jinja template inside a pipeline document calls the pipeline loading API
itself and passes the opt-in arguments, so a pipeline loaded with default arguments executes a
Python vars file and runs a shell command during Backend.convert()."""
import os
import shutil
import sys
import tempfile

for v in ("PYSIGMA_ALLOW_VARS_EXECUTION", "PYSIGMA_ALLOW_EXTERNAL_SOURCES"):
    os.environ.pop(v, None)

from sigma.backends.test import TextQueryTestBackend
from sigma.collection import SigmaCollection
from sigma.processing.pipeline import ProcessingPipeline

here = os.path.dirname(os.path.abspath(__file__))
tmp = tempfile.mkdtemp(prefix="w_", dir=here)
vars_file = os.path.join(tmp, "helper_vars.py")
vars_marker = os.path.join(tmp, "vars_executed")
cmd_marker = os.path.join(tmp, "cmd_executed")
with open(vars_file, "w") as f:
    f.write(f"open({vars_marker!r}, 'w').write('x')\nvars = {{'x': 1}}\n")

events = []


def hook(ev, args):
    if ev == "subprocess.Popen":
        events.append(ev)
    elif ev == "exec" and getattr(args[0], "co_filename", "") == os.path.realpath(vars_file):
        events.append("exec vars file")


sys.addaudithook(hook)

RULE = """
title: t
logsource: {category: test}
detection:
  sel: {a: b}
  condition: sel
"""

# Route A: query template -> ProcessingPipeline.from_dict(..., allow_template_vars=True)
PIPE_A = f"""
postprocessing:
- type: template
  template: >-
    {{% set p = pipeline.from_dict({{'postprocessing': [{{'type': 'template', 'template': 'x',
    'vars': '{vars_file}'}}]}}, allow_template_vars=True) %}}{{{{ query }}}}
"""
# Route B: finalizer template -> from_dict(..., allow_external_sources=True) and use of the item
PIPE_B = f"""
finalizers:
- type: template
  template: >-
    {{% set p = pipeline.from_dict({{'transformations': [{{'type': 'command_placeholders',
    'cmd': 'touch {cmd_marker}; echo pwned'}}]}}, allow_external_sources=True) %}}{{{{
    p.items[0].transformation.placeholder_replacements(none) }}}}
"""

results = {}
for name, doc in (("A", PIPE_A), ("B", PIPE_B)):
    try:
        pipeline = ProcessingPipeline.from_yaml(doc)  # default arguments: nothing opted in
        results[name] = TextQueryTestBackend(pipeline).convert(SigmaCollection.from_yaml(RULE))
    except Exception as e:  # a repaired library is expected to end up here
        results[name] = f"{type(e).__name__}: {e}"

vars_ran = os.path.exists(vars_marker)
cmd_ran = os.path.exists(cmd_marker)

# Route C: vars execution enabled by the operator (environment variable) but confined to the
# pipeline file's directory via source_path; the template escapes the confinement.
allowed_dir = os.path.join(tmp, "allowed")
os.makedirs(allowed_dir)
if vars_ran:
    os.remove(vars_marker)
os.environ["PYSIGMA_ALLOW_VARS_EXECUTION"] = "1"
try:
    ProcessingPipeline.from_yaml(
        f"postprocessing:\n- type: template\n  template: x\n  vars: {vars_file}\n",
        source_path=os.path.join(allowed_dir, "p.yml"),
    )
    direct = "loaded (not confined!)"
except Exception as e:
    direct = type(e).__name__
if os.path.exists(vars_marker):
    os.remove(vars_marker)
try:
    pipeline = ProcessingPipeline.from_yaml(
        PIPE_A.replace(", allow_template_vars=True", ""), source_path=os.path.join(allowed_dir, "p.yml")
    )
    results["C"] = TextQueryTestBackend(pipeline).convert(SigmaCollection.from_yaml(RULE))
except Exception as e:
    results["C"] = f"{type(e).__name__}: {e}"
os.environ.pop("PYSIGMA_ALLOW_VARS_EXECUTION")
escaped = os.path.exists(vars_marker)
shutil.rmtree(tmp, ignore_errors=True)

print("route A result:", results["A"])
print("route B result:", results["B"])
print("route C result:", results["C"], "| same vars file referenced directly:", direct)
print("audit events:", events)
if vars_ran or cmd_ran or escaped or events:
    what = []
    if vars_ran:
        what.append("executed a Python vars file")
    if cmd_ran:
        what.append("ran a shell command")
    if escaped:
        what.append("(with vars enabled but confined by source_path) executed a vars file outside the allowed directory")
    print(
        "DEFECT: pipeline loaded with default arguments "
        + " and ".join(what or ["triggered " + ", ".join(events)])
        + " because its Jinja template called pipeline.from_dict(..., allow_*=True)"
    )
    sys.exit(0)
print("OK: no vars file executed, no command run")
sys.exit(1)
