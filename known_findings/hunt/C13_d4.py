"""C13 / d4: a state condition inside a nested pipeline ('nest' transformation) does not observe state that a
preceding item of the enclosing pipeline has set for the same rule."""
import sys
import warnings

warnings.simplefilter("ignore")

from sigma.collection import SigmaCollection
from sigma.processing.pipeline import ProcessingPipeline
from sigma.backends.test import TextQueryTestBackend

RULE = """
title: State set before nested pipeline
status: test
logsource:
    category: test
detection:
    sel:
        k: v
    condition: sel
"""

MARKER = """
      - id: marker
        type: field_name_prefix
        prefix: marked_
        {kind}:
          - type: processing_state
            key: data_model
            val: ecs
"""

FLAT = """
transformations:
  - id: set
    type: set_state
    key: data_model
    val: ecs
""" + MARKER.replace("\n      ", "\n  ")

NESTED = """
transformations:
  - id: set
    type: set_state
    key: data_model
    val: ecs
  - id: group
    type: nest
    items:""" + MARKER

expected = 'marked_k="v"'
failed = []
for kind in ("rule_conditions", "detection_item_conditions", "field_name_conditions"):
    flat = TextQueryTestBackend(ProcessingPipeline.from_yaml(FLAT.format(kind=kind))).convert(
        SigmaCollection.from_yaml(RULE)
    )[0]
    nested = TextQueryTestBackend(ProcessingPipeline.from_yaml(NESTED.format(kind=kind))).convert(
        SigmaCollection.from_yaml(RULE)
    )[0]
    print(f"{kind:28s} flat: {flat:16s} nested: {nested}")
    if flat != expected:
        failed.append(f"{kind} (flat): {flat!r}")
    if nested != expected:
        failed.append(f"{kind} (nested): {nested!r}")

if failed:
    print(
        "DEFECT: state data_model=ecs was set by the preceding item for this rule, but the processing_state "
        f"condition of the nested item is false and the marker is not applied: {failed[0]}, expected {expected!r} "
        f"({len(failed)} variants wrong)"
    )
    sys.exit(0)
print("OK: nested items observe the state set so far")
sys.exit(1)
