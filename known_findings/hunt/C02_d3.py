"""C02 / d3: moderately nested (valid) conditions die with RecursionError instead of parsing.

"Parentheses override" must hold for every condition expression, also beyond the small size
bound.  With the default interpreter recursion limit the pyparsing infix_notation grammar
needs ~50 Python frames per parenthesis level, so a condition with 20 nested parenthesis
levels raises RecursionError (not a SigmaError) out of SigmaCondition.parse.  Nesting of this
depth is produced by the library itself: every SigmaFilter application rewrites the condition
to "(<old>) and (<filter>)", so a rule hit by 20 filters cannot be converted any more.
"""
import sys

from sigma.backends.test import TextQueryTestBackend
from sigma.collection import SigmaCollection
from sigma.conditions import ConditionAND, ConditionFieldEqualsValueExpression
from sigma.exceptions import SigmaError
from sigma.rule import SigmaDetections

problems = []

# 1. plain condition text: 25 redundant parenthesis levels around "a and b"
DEPTH = 25
cond = "(" * DEPTH + "a and b" + ")" * DEPTH
try:
    tree = SigmaDetections.from_dict(
        {"a": {"fa": "v"}, "b": {"fb": "v"}, "condition": cond}
    ).parsed_condition[0].parsed
    ok = (
        isinstance(tree, ConditionAND)
        and [getattr(x, "field", None) for x in tree.args] == ["fa", "fb"]
    )
    if not ok:
        problems.append(f"{DEPTH} nested parentheses: wrong tree {tree!r}")
except SigmaError:
    pass  # a documented nesting limit reported as Sigma error would at least be the right kind
except RecursionError as e:
    problems.append(f"{DEPTH} nested parentheses around 'a and b' -> RecursionError")

# 2. the same through the public filter API: one rule, 20 filters
rule = """
title: rule
logsource: {category: test}
detection:
  sel: {f: v}
  condition: sel
"""
filt = """
title: filter %d
logsource: {category: test}
filter:
  rules: any
  ex: {g%d: v}
  condition: not ex
"""
N = 20
coll = SigmaCollection.from_yaml("---".join([rule] + [filt % (i, i) for i in range(N)]))
try:
    q = TextQueryTestBackend().convert(coll)
    expected = 'f="v"' + "".join(f' and not g{i}="v"' for i in range(N))
    if q != [expected]:
        problems.append(f"{N} filters: unexpected query {q}")
except SigmaError:
    pass
except RecursionError:
    problems.append(f"rule with {N} applied filters -> RecursionError during conversion")

if problems:
    print("DEFECT: valid nested condition is not parsed: " + " | ".join(problems))
    sys.exit(0)
print("OK: nested conditions parse to the function they spell")
sys.exit(1)
