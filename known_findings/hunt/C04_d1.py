"""base64offset applied to an expansion (windash|base64offset, base64offset|base64offset)."""
import base64, sys
from sigma.rule import SigmaRule
from sigma.backends.test import TextQueryTestBackend
from sigma.exceptions import SigmaError

RULE = """
title: encoded parameter at any alignment
logsource: {category: test}
detection:
    sel:
        f|%s|contains: '%s'
    condition: sel
"""

def offsets(payload: bytes):
    # independent oracle: the part of the Base64 text that is determined by the payload alone, for
    # each alignment of the payload in the data
    res = []
    for i in range(3):
        bits_before = 8 * i
        first = -(-bits_before // 6)  # first Base64 char that only contains payload bits
        last = (8 * (i + len(payload))) // 6  # one past the last such char
        res.append(base64.b64encode(b"\xff" * i + payload + b"\xff\xff")[first:last].decode())
    return res

defects = []
for chain, value, payloads in (
    ("windash|base64offset", "-enc", [b"-enc", b"/enc"]),
    ("base64offset|base64offset", "abcdef", None),
):
    try:
        rule = SigmaRule.from_yaml(RULE % (chain, value))
    except SigmaError as e:
        print(f"{chain}: rejected while parsing ({type(e).__name__}) - allowed")
        continue
    try:
        query = TextQueryTestBackend().convert_rule(rule)[0]
    except SigmaError as e:
        print(f"{chain}: rejected while converting ({type(e).__name__}) - allowed")
        continue
    except Exception as e:
        defects.append(f"{chain}|contains: rule is accepted, conversion dies with {type(e).__name__}: {e}")
        continue
    print(chain, "->", query)
    if payloads is None:
        payloads = []
        for v in offsets(value.encode()):
            payloads.append(v.encode())
    for p in payloads:
        for v in offsets(p):
            if v and f'"{v}"' not in query:
                defects.append(f"{chain}: value {v!r} for payload {p!r} missing in query {query}")

if defects:
    print("DEFECT: " + defects[0])
    for d in defects[1:]:
        print("  also: " + d)
    sys.exit(0)
sys.exit(1)
