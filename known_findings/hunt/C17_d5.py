"""
C17 / d5: QueryExpressionPlaceholderTransformation refuses values whose placeholders it does not
handle. With include=[a] (or exclude=[b]) the item is only responsible for placeholder a; a value
'foo%b%' must be left to the later value_placeholders item. Instead the whole conversion fails with
"only allows placeholder-only strings" - an error about a placeholder that is not this item's and
that is resolved by the pipeline.

Rule:      f|expand: 'foo%b%'
Pipeline:  query_expression_placeholders include=[a]  ->  value_placeholders       vars b=[1, 2]
Expected:  f in ("foo1", "foo2") ...  (identical to the pipeline with the two items swapped)
Observed:  SigmaValueError: Placeholder query expression transformation only allows placeholder-only strings.
"""
import sys

from sigma.rule import SigmaRule
from sigma.backends.test import TextQueryTestBackend
from sigma.processing.pipeline import ProcessingPipeline
from sigma.exceptions import SigmaError

VARS = {"b": ["1", "2"]}


def convert(detection: dict, transformations: list):
    try:
        rule = SigmaRule.from_dict(
            {"title": "t", "logsource": {"category": "test"}, "detection": detection}
        )
        pipeline = ProcessingPipeline.from_dict({"vars": VARS, "transformations": transformations})
        return TextQueryTestBackend(pipeline).convert_rule(rule)[0]
    except SigmaError as e:
        return e


def qe(**kw):
    return {"type": "query_expression_placeholders", "expression": "{field} lookup {id}", **kw}


vl = {"type": "value_placeholders"}
detection = {"sel": {"f|expand": "foo%b%", "g|expand": "%a%"}, "condition": "sel"}

reference = convert(detection, [{"type": "value_placeholders", "include": ["b"]}, qe(include=["a"])])
print("value list first          :", repr(reference))
assert isinstance(reference, str) and '"foo1"' in reference and '"foo2"' in reference and "g lookup a" in reference, reference

bad = []
for name, item in (("include=[a]", qe(include=["a"])), ("exclude=[b]", qe(exclude=["b"]))):
    res = convert(detection, [item, vl])
    print(f"query expression {name} first:", repr(res))
    if isinstance(res, SigmaError):
        bad.append(f"{name}: {type(res).__name__}: {res}")
    elif not ('"foo1"' in res and '"foo2"' in res and "g lookup a" in res and "%" not in res):
        bad.append(f"{name}: {res!r} differs from {reference!r}")

if bad:
    print("DEFECT: query_expression_placeholders with include/exclude rejects a value that only contains placeholders it does not handle: " + " | ".join(bad))
    sys.exit(0)
print("unhandled placeholders are left to later transformations")
sys.exit(1)
