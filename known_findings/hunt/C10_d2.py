"""
C10 / d2: the single-rule search template cannot tag the embedded query with the rule name/id.
The documented placeholders of correlation_search_single_rule_expression are {rule} (the referred
Sigma rule), {ruleid}, {query} and {normalization} (sigma/conversion/base.py l.1332-1340), the same
as for the multi-rule query expression. With exactly one referenced rule that has one condition,
{ruleid} is not passed at all and {rule} is the SigmaRuleReference instead of the rule.
"""
import sys

from sigma.backends.test import TextQueryTestBackend
from sigma.collection import SigmaCollection


class TaggingBackend(TextQueryTestBackend):
    # identical tagging for the single rule and the multi rule case
    correlation_search_single_rule_expression = '{query} | set event_type="{ruleid}"{normalization}'


class TaggingBackend2(TextQueryTestBackend):
    correlation_search_single_rule_expression = '{query} | set event_type="{rule.name}"{normalization}'
    correlation_search_multi_rule_query_expression = (
        'subsearch {{ {query} | set event_type="{rule.name}"{normalization} }}'
    )


def rules(n):
    return "---".join(f"""
title: R{i}
name: rule_{i}
logsource: {{product: windows}}
detection:
  sel: {{user: v{i}}}
  condition: sel
""" for i in range(n))


def corr(n):
    return f"""
title: C
name: corr
correlation:
  type: event_count
  rules: [{", ".join(f"rule_{i}" for i in range(n))}]
  timespan: 5m
  group-by: [user]
  condition: {{gte: 2}}
"""


failures = []
for backend_cls in (TaggingBackend, TaggingBackend2):
    for n in (1, 2, 3):
        try:
            q = backend_cls().convert(SigmaCollection.from_yaml(rules(n) + "---" + corr(n)))[0]
        except Exception as e:
            failures.append(f"{backend_cls.__name__}, {n} referenced rule(s): {type(e).__name__}: {e}")
            continue
        for i in range(n):
            if f'user="v{i}" | set event_type="rule_{i}"' not in q:
                failures.append(f"{backend_cls.__name__}, {n} rule(s): rule_{i} not tagged in {q!r}")

for f in failures:
    print(f)
if failures:
    print(
        "DEFECT: with exactly one referenced rule the search template gets no {ruleid} and a "
        "SigmaRuleReference as {rule}; the query cannot be tagged with the rule name/id "
        "(works for 2 and 3 referenced rules)"
    )
    sys.exit(0)
print("OK: single referenced rule tagged like multiple ones")
sys.exit(1)
