"""C20.R5 known finding: SigmaConversionError.__str__ appends str(self.rule); the generated repr of a SigmaRule shows the
detection map, whose keys include the names add_condition/filters draw at random. The error record "Conversion result not
available in rule SigmaRule(… '_cond_<10 letters>' …)" (a correlation rule referring to a rule whose conversion failed in
collecting mode) differs between processes.

Run: /venv/bin/python known_findings/hunt/C20_d6.py   (prints the two differing names and exits 1 while the defect is present)"""
import re
import subprocess
import sys

CHILD = r'''
import re
from sigma.collection import SigmaCollection
from sigma.backends.test import TextQueryTestBackend
from sigma.processing.pipeline import ProcessingPipeline
pipe = ProcessingPipeline.from_yaml("""
name: p
priority: 10
transformations:
  - id: addc
    type: add_condition
    conditions:
      index: win
    rule_conditions:
      - type: is_sigma_rule
  - id: fail
    type: rule_failure
    message: nope
    rule_conditions:
      - type: is_sigma_rule
""")
coll = SigmaCollection.from_yaml("""
title: A
name: a
logsource: {category: test}
detection:
  sel: {f: 1}
  condition: sel
---
title: C
correlation:
  type: event_count
  rules: [a]
  group-by: [f]
  timespan: 5m
  condition: {gte: 2}
""")
b = TextQueryTestBackend(pipe, collect_errors=True)
b.convert(coll)
for r, e in b.errors:
    print(type(e).__name__, str(e))
'''

outs = [subprocess.run([sys.executable, "-c", CHILD], capture_output=True, text=True).stdout for _ in range(2)]
names = [re.findall(r"_cond_[a-z]{10}", o) for o in outs]
print("process 1:", sorted(set(names[0])))
print("process 2:", sorted(set(names[1])))
if outs[0] != outs[1]:
    print("error records differ between two processes")
    sys.exit(1)
print("error records identical")
