"""C05 / d5: the aggregated field of a value_count/value_sum/... correlation is put into the
query without field quoting/escaping, while the same name is quoted everywhere else.

Run: PYTHONPATH=/repo /venv/bin/python witness.py
exit 0 + "DEFECT: ..."  -> property violated
exit 1                   -> library behaves as the property says
"""
import sys
from sigma.backends.test import TextQueryTestBackend
from sigma.collection import SigmaCollection

FIELD = "user name"  # needs quoting on the test backend (field_quote_pattern ^\w+$)

problems = []
for corr_type, func in [("value_count", "value_count"), ("value_sum", "sum")]:
    rules = SigmaCollection.from_yaml(
        f"""
title: base
name: base_rule
status: test
logsource:
    category: test
detection:
    sel:
        "{FIELD}": x
    condition: sel
---
title: corr
status: test
correlation:
    type: {corr_type}
    rules:
        - base_rule
    group-by:
        - "{FIELD}"
    timespan: 15m
    condition:
        field: "{FIELD}"
        gte: 10
"""
    )
    backend = TextQueryTestBackend()
    query = backend.convert(rules)[-1]
    rendered = backend.escape_and_quote_field(FIELD)  # 'user name'
    # the detection item and the group-by clause use the quoted name
    assert f"{rendered}=\"x\"" in query, query
    assert f" by {rendered}" in query, query
    expected = f"{func}({rendered})"
    if expected not in query:
        start = query.index(f"{func}(")
        problems.append(
            f"{corr_type}: aggregate renders {query[start:query.index(')', start) + 1]!r}, "
            f"expected {expected!r} (detection item and group-by of the same query use {rendered})"
        )

if problems:
    print("DEFECT: correlation condition field is rendered raw: " + problems[0])
    for p in problems[1:]:
        print("  also:", p)
    sys.exit(0)
print("OK")
sys.exit(1)
