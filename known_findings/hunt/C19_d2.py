"""C19 / d2: ThemConditionWithSingleDetectionValidator reports "Rule refers to 'them'" for a rule
whose condition does not contain the keyword 'them' at all - it only references (by name) a
detection whose name contains the letters t-h-e-m (Themida is a well known packer)."""
import sys

from sigma.backends.test import TextQueryTestBackend
from sigma.conditions import ConditionIdentifier, ConditionSelector
from sigma.rule import SigmaRule
from sigma.validation import SigmaValidator
from sigma.validators.core import validators
from sigma.validators.core.condition import ThemConditionWithSingleDetectionIssue

RULE = """
title: Themida packed binary
id: 9a6b2a1e-7f0c-4e5f-8d3a-1b2c3d4e5f60
logsource:
    category: test
detection:
    selection_themida:
        field: value
    condition: selection_themida
"""
CONTROL = RULE.replace("selection_themida", "selection_packer")
POSITIVE = RULE.replace("condition: selection_themida", "condition: 1 of them")


def them_issues(rule_yaml):
    rule = SigmaRule.from_yaml(rule_yaml)
    validator = SigmaValidator.from_dict(
        {"validators": ["them_condition_with_single_detection"]}, validators
    )
    issues = validator.validate_rules([rule])
    return rule, [i for i in issues if isinstance(i, ThemConditionWithSingleDetectionIssue)]


rule, issues = them_issues(RULE)
_, control_issues = them_issues(CONTROL)
_, positive_issues = them_issues(POSITIVE)

# What the condition really refers to, according to the library's own condition parser:
parsed = rule.detection.parsed_condition[0].parse(False)
is_plain_name_reference = isinstance(parsed, ConditionIdentifier) and not isinstance(
    parsed, ConditionSelector
)
print("parsed condition:", type(parsed).__name__, getattr(parsed, "identifier", None))
print("query:", TextQueryTestBackend().convert_rule(SigmaRule.from_yaml(RULE)))
print("issues for 'selection_themida':", [str(i) for i in issues])
print("issues for 'selection_packer' :", [str(i) for i in control_issues])
print("issues for '1 of them'        :", len(positive_issues))

if not positive_issues or control_issues or not is_plain_name_reference:
    print("unexpected baseline behaviour, witness not applicable")
    sys.exit(1)

if issues:
    print(
        "DEFECT: condition 'selection_themida' (a plain reference by name, no selector) is reported as "
        "ThemConditionWithSingleDetectionIssue; renaming the detection to 'selection_packer' removes the issue"
    )
    sys.exit(0)

print("OK: no 'them' issue for a condition that does not use the 'them' selector")
sys.exit(1)
