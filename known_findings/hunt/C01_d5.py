"""
C01 witness d5: 'field|exists: false' on a backend without field_not_exists_expression whose target
language does not give NOT the tightest binding (precedence AND > NOT > OR, or AND > OR > NOT).

Without a dedicated not-exists template, convert_condition_field_eq_val_exists() synthesises
"not exists(field)" while converting the LEAF. The enclosing AND/OR only sees a field=value leaf,
for which compare_precedence() never asks for grouping, so the synthesised NOT swallows the rest of
the conjunction in the target language. An explicit 'not' in the condition IS grouped by the same
backend, so the precedence setting is honoured everywhere but here.
"""
import sys

from sigma.backends.test import TextQueryTestBackend
from sigma.conditions import ConditionAND, ConditionNOT, ConditionOR
from sigma.rule import SigmaRule

# --- tiny evaluator for the test backend's query language (standalone, no library code) ---
import re

_TOK = re.compile(
    r'\s*(?:(?P<lp>\()|(?P<rp>\))|(?P<kw>\b(?:and|or|not)\b)'
    r'|(?P<f1>\w+) (?P<op>startswith|endswith|contains) "(?P<v1>[^"]*)"'
    r'|(?P<f2>\w+)(?P<eq>!?=)"(?P<v2>[^"]*)"'
    r'|(?P<nex>not)?exists\((?P<f3>\w+)\))'
)


def _tokens(q):
    pos, out = 0, []
    while pos < len(q):
        if q[pos:].strip() == "":
            break
        m = _TOK.match(q, pos)
        if not m or m.end() == pos:
            raise SyntaxError("can't tokenize %r at %d" % (q, pos))
        pos = m.end()
        if m.group("lp"):
            out.append("(")
        elif m.group("rp"):
            out.append(")")
        elif m.group("kw"):
            out.append(m.group("kw"))
        elif m.group("f1"):
            out.append(("str", m.group("f1"), m.group("op"), m.group("v1")))
        elif m.group("f2"):
            out.append(("str", m.group("f2"), m.group("eq"), m.group("v2")))
        else:
            out.append(("exists", m.group("f3"), not m.group("nex")))
    return out


def _atom(t, event):
    if t[0] == "exists":
        return (t[1] in event) == t[2]
    _, field, op, val = t
    have = event.get(field)
    if have is None:
        return op == "!="
    have, val = have.lower(), val.lower()
    return {
        "=": have == val,
        "!=": have != val,
        "startswith": have.startswith(val),
        "endswith": have.endswith(val),
        "contains": val in have,
    }[op]


def evaluate(query, event, precedence=("not", "and", "or")):
    """Evaluate query on event; precedence lists the operators from tightest to loosest binding."""
    bp = {op: 3 - i for i, op in enumerate(precedence)}
    toks = _tokens(query)
    i = [0]

    def peek():
        return toks[i[0]] if i[0] < len(toks) else None

    def nxt():
        t = peek()
        i[0] += 1
        return t

    def expr(minbp):
        t = nxt()
        if t == "not":
            left = not expr(bp["not"])
        elif t == "(":
            left = expr(0)
            assert nxt() == ")"
        elif isinstance(t, tuple):
            left = _atom(t, event)
        else:
            raise SyntaxError("unexpected token %r in %r" % (t, query))
        while peek() in ("and", "or") and bp[peek()] >= minbp:
            op = nxt()
            right = expr(bp[op] + 1)
            left = (left and right) if op == "and" else (left or right)
        return left

    r = expr(0)
    assert peek() is None, "trailing tokens in %r" % query
    return r
# --- end of evaluator ---


def convert(backend_cls, detection):
    rule = SigmaRule.from_dict(
        {"title": "t", "logsource": {"category": "test"}, "detection": detection}
    )
    return backend_cls().convert_rule(rule)[0]


failures = []
for precedence, names in (
    ((ConditionAND, ConditionNOT, ConditionOR), ("and", "not", "or")),
    ((ConditionAND, ConditionOR, ConditionNOT), ("and", "or", "not")),
):
    Backend = type(
        "Backend",
        (TextQueryTestBackend,),
        {"precedence": precedence, "field_not_exists_expression": None},
    )
    # Rule: fa must not exist AND fb = xb
    query = convert(Backend, {"sel": {"fa|exists": False, "fb": "xb"}, "condition": "sel"})
    event = {"fb": "other"}  # fa doesn't exist (True), fb differs (False) -> rule False
    got = evaluate(query, event, precedence=names)
    print(f"precedence {names}: query {query!r}; event {event}: rule says False, query says {got}")
    if got is not False:
        failures.append(f"{'>'.join(names)}: {query}")

    # control: the explicit NOT of the same meaning is grouped by the same backend
    control = convert(
        Backend,
        {"e": {"fa|exists": True}, "b": {"fb": "xb"}, "condition": "not e and b"},
    )
    got_c = evaluate(control, event, precedence=names)
    print(f"   control 'not e and b': {control!r}: query says {got_c}")
    assert got_c is False, control

if failures:
    print("DEFECT: NOT synthesised for 'exists: false' is not grouped when NOT binds weaker than AND: "
          + "; ".join(failures))
    sys.exit(0)
print("no defect")
sys.exit(1)
