"""
C18 / d1: a CIDR detection that is referenced twice in the condition loses its grouping.

A backend without native CIDR support expands ip|cidr: 10.0.0.0/7 into the OR of the patterns
"10.*" and "11.*". In "(net and a) or (c and (net or a))" the first reference stands below an AND
and must therefore be grouped. The query is evaluated against events and compared with what the
rule means (ipaddress is the reference for network membership).
"""
import ipaddress
import itertools
import sys

from sigma.backends.test import TextQueryTestBackend
from sigma.collection import SigmaCollection
from sigma.processing.pipeline import ProcessingPipeline

# --- tiny evaluator for queries of TextQueryTestBackend-like backends ------------------------
import re as _re, fnmatch as _fn

_TOK = _re.compile(r'\s*(?:("(?:\\.|[^"\\])*")|(\(|\)|,|!=|=)|([A-Za-z_][A-Za-z_0-9]*))')

def _tokens(q):
    pos, out = 0, []
    while pos < len(q):
        if q[pos:].strip() == "":
            break
        m = _TOK.match(q, pos)
        if not m:
            raise ValueError("cannot tokenize %r at %d" % (q, pos))
        s, p, w = m.groups()
        out.append(("str", _re.sub(r"\\(.)", r"\1", s[1:-1])) if s is not None else ("p", p) if p else ("w", w))
        pos = m.end()
    return out

def _wild(pattern, value):  # only '*' is a wildcard here
    return _re.fullmatch(".*".join(_re.escape(x) for x in pattern.split("*")), value, _re.I | _re.S) is not None

def evaluate(query, event):
    """Evaluate query (precedence not > and > or) against event (dict field -> str)."""
    toks = _tokens(query)
    i = 0
    def peek():
        return toks[i] if i < len(toks) else (None, None)
    def take(kind=None, val=None):
        nonlocal i
        t = peek()
        if (kind and t[0] != kind) or (val is not None and t[1] != val):
            raise ValueError("unexpected token %r in %r" % (t, query))
        i += 1
        return t
    def p_or():
        v = p_and()
        while peek() == ("w", "or"):
            take(); r = p_and(); v = v or r
        return v
    def p_and():
        v = p_not()
        while peek() == ("w", "and"):
            take(); r = p_not(); v = v and r
        return v
    def p_not():
        if peek() == ("w", "not"):
            take(); return not p_not()
        return p_atom()
    def p_atom():
        if peek() == ("p", "("):
            take(); v = p_or(); take("p", ")"); return v
        field = take("w")[1]
        val = event[field]
        t = take()
        if t == ("p", "="):
            return _wild(take("str")[1], val)
        if t == ("p", "!="):
            return not _wild(take("str")[1], val)
        if t == ("w", "startswith"):
            return val.lower().startswith(take("str")[1].lower())
        if t == ("w", "notstartswith"):
            return not val.lower().startswith(take("str")[1].lower())
        if t == ("w", "match"):
            return _wild(take("str")[1], val)
        if t == ("w", "in"):
            take("p", "("); res = False
            while True:
                res = _wild(take("str")[1], val) or res
                if peek() == ("p", ","):
                    take(); continue
                break
            take("p", ")"); return res
        raise ValueError("unknown operator %r in %r" % (t, query))
    v = p_or()
    if i != len(toks):
        raise ValueError("trailing tokens in %r" % query)
    return v
# ---------------------------------------------------------------------------------------------


class NoNativeCIDRBackend(TextQueryTestBackend):
    cidr_expression = None  # no native CIDR support: wildcard expansion
    convert_or_as_in = False  # plain OR instead of "field in (...)"


RULE = """
title: CIDR detection referenced twice
logsource:
    category: test
detection:
    net:
        ip|cidr: 10.0.0.0/7
    a:
        a: b
    c:
        c: d
    condition: (net and a) or (c and (net or a))
"""

queries = NoNativeCIDRBackend(ProcessingPipeline()).convert(SigmaCollection.from_yaml(RULE))
assert len(queries) == 1
query = queries[0]
print("query:", query)

network = ipaddress.ip_network("10.0.0.0/7")
wrong = []
for ip, a, c in itertools.product(
    ["9.255.255.255", "10.0.0.0", "10.1.2.3", "11.255.255.255", "12.0.0.0"], ["b", "x"], ["d", "x"]
):
    net = ipaddress.ip_address(ip) in network
    expected = (net and a == "b") or (c == "d" and (net or a == "b"))
    got = evaluate(query, {"ip": ip, "a": a, "c": c})
    if got != expected:
        wrong.append((ip, a, c, expected, got))

if wrong:
    ip, a, c, expected, got = wrong[0]
    print(
        f"DEFECT: expanded CIDR below AND is not grouped when the detection is referenced twice: "
        f"event ip={ip} a={a} c={c} must {'match' if expected else 'not match'} but the query "
        f"{'matches' if got else 'does not match'} ({len(wrong)} of 20 events wrong)"
    )
    sys.exit(0)
print("query means what the rule means")
sys.exit(1)
