"""C14 / d5: ProcessingPipelineResolver.resolve() silently replaces a registered pipeline by the
contents of a same-named directory of the current working directory (usually: by nothing).

Property: resolving a set of (named) pipelines yields the combined pipeline of exactly those pipelines,
ordered by (priority, name).  resolve_pipeline() documents "first the registered identifiers, then files".
"""
import os, sys, tempfile
from sigma.backends.test import TextQueryTestBackend
from sigma.collection import SigmaCollection
from sigma.processing.pipeline import ProcessingPipeline
from sigma.processing.resolver import ProcessingPipelineResolver

RULE = """
title: T
logsource: {category: test}
detection:
  sel: {src: a, dst: b}
  condition: sel
"""

def resolver():
    return ProcessingPipelineResolver.from_pipeline_list([
        ProcessingPipeline.from_yaml("""
name: sysmon
priority: 10
transformations:
- type: field_name_mapping
  mapping: {src: SourceIp}
"""),
        ProcessingPipeline.from_yaml("""
name: custom
priority: 20
transformations:
- type: field_name_mapping
  mapping: {dst: DestinationIp}
"""),
    ])

def convert(p):
    return TextQueryTestBackend(p).convert(SigmaCollection.from_yaml(RULE))

scratch = os.path.join(os.path.dirname(os.path.abspath(__file__)), "scratch")
os.makedirs(scratch, exist_ok=True)
with tempfile.TemporaryDirectory(dir=scratch) as cwd:
    old = os.getcwd()
    os.chdir(cwd)
    try:
        before = convert(resolver().resolve(["custom", "sysmon"]))
        assert before == ['SourceIp="a" and DestinationIp="b"'], before
        os.mkdir("sysmon")  # e.g. a checkout, a rules folder ... unrelated to pipelines, no *.yml inside
        single = resolver().resolve_pipeline("sysmon")           # the registered pipeline (documented precedence)
        after = convert(resolver().resolve(["custom", "sysmon"]))  # same names, same resolver content
    finally:
        os.chdir(old)

if len(single.items) == 1 and after != before:
    print(
        "DEFECT: resolve(['custom','sysmon']) drops the registered pipeline 'sysmon' when ./sysmon is a directory: "
        f"{after!r} instead of {before!r} (resolve_pipeline('sysmon') still returns the registered pipeline)"
    )
    sys.exit(0)
print("OK: registered pipeline names take precedence over directories")
sys.exit(1)
