"""
C08 witness d5: pipeline state leaks from one rule to the following rules. The identifiers of items
applied inside a nested query-postprocessing pipeline are never reset per rule, so
`pipeline.applied_ids` seen by a later postprocessing template of rule N contains items that were
only applied to rules 1..N-1. A rule's query therefore depends on which rules precede it.
"""
import sys

from sigma.backends.test import TextQueryTestBackend
from sigma.collection import SigmaCollection
from sigma.processing.conditions import LogsourceCondition
from sigma.processing.pipeline import ProcessingPipeline, QueryPostprocessingItem
from sigma.processing.postprocessing import (
    EmbedQueryTransformation,
    NestedQueryPostprocessingTransformation,
    QueryTemplateTransformation,
)


def rule(title, product, field):
    return f"""
title: {title}
status: test
logsource:
    category: test
    product: {product}
detection:
    sel:
        {field}: value
    condition: sel
"""


WINDOWS = rule("win", "windows", "fieldA")
LINUX = rule("lin", "linux", "fieldB")
MACOS = rule("mac", "macos", "fieldC")
FAILING = """
title: failing
status: test
logsource:
    category: test
    product: windows
detection:
    sel:
        f|expand: '%unresolved%'
    condition: sel
"""


def pipeline():
    return ProcessingPipeline(
        postprocessing_items=[
            QueryPostprocessingItem(
                NestedQueryPostprocessingTransformation(
                    items=[
                        QueryPostprocessingItem(
                            EmbedQueryTransformation(prefix="index=windows "),
                            rule_conditions=[LogsourceCondition(product="windows")],
                            identifier="windows_index",
                        ),
                        QueryPostprocessingItem(
                            EmbedQueryTransformation(prefix="index=linux "),
                            rule_conditions=[LogsourceCondition(product="linux")],
                            identifier="linux_index",
                        ),
                    ]
                ),
                identifier="indices",
            ),
            QueryPostprocessingItem(
                QueryTemplateTransformation(
                    "{{ query }} /* applied: {{ pipeline.applied_ids | sort | join(',') }} */"
                ),
                identifier="comment",
            ),
        ]
    )


def convert(*rules):
    backend = TextQueryTestBackend(pipeline(), collect_errors=True)
    result = backend.convert(SigmaCollection.from_yaml("---".join(rules)))
    return result, backend.errors


alone = {name: convert(src)[0] for name, src in (("win", WINDOWS), ("lin", LINUX), ("mac", MACOS))}
assert all(len(q) == 1 for q in alone.values())

problems = []
for order in (
    ("win", "lin", "mac"),
    ("mac", "lin", "win"),
    ("lin", "mac", "win"),
):
    srcs = {"win": WINDOWS, "lin": LINUX, "mac": MACOS}
    result, errors = convert(*(srcs[n] for n in order))
    expected = [alone[n][0] for n in order]
    if result != expected or errors:
        for n, got, exp in zip(order, result, expected):
            if got != exp:
                problems.append((order, n, got, exp))

# a failing rule in front must not change the following rule either
result, errors = convert(LINUX, FAILING, MACOS)
if len(errors) != 1 or result != [alone["lin"][0], alone["mac"][0]]:
    problems.append((("lin", "failing", "mac"), "mac", result, [alone["lin"][0], alone["mac"][0]]))

if problems:
    order, name, got, exp = problems[0]
    print(
        f"DEFECT: query of rule '{name}' depends on the preceding rules (order {order}): "
        f"in collection {got!r}, alone {exp!r}; {len(problems)} differing queries"
    )
    sys.exit(0)
print("ok: every query equals the query of the rule converted alone")
sys.exit(1)
