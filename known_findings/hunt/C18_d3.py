"""
C18 / d3: "not ip|cidr: 10.0.0.0/7" with convert_not_as_not_eq matches every address.

The backend has no native CIDR support but a complete set of negated expressions and
convert_not_as_not_eq = True. The expansion builds the OR of the patterns while the negated
expression templates are active, the NOT itself is dropped (that is what convert_not_as_not_eq
does) and the result is "not 10.* OR not 11.*", which is true for every address - including all
addresses of the network that had to be excluded.
"""
import ipaddress
import sys

from sigma.backends.test import TextQueryTestBackend
from sigma.collection import SigmaCollection
from sigma.processing.pipeline import ProcessingPipeline

# --- tiny evaluator for queries of TextQueryTestBackend-like backends ------------------------
import re as _re, fnmatch as _fn

_TOK = _re.compile(r'\s*(?:("(?:\\.|[^"\\])*")|(\(|\)|,|!=|=)|([A-Za-z_][A-Za-z_0-9]*))')

def _tokens(q):
    pos, out = 0, []
    while pos < len(q):
        if q[pos:].strip() == "":
            break
        m = _TOK.match(q, pos)
        if not m:
            raise ValueError("cannot tokenize %r at %d" % (q, pos))
        s, p, w = m.groups()
        out.append(("str", _re.sub(r"\\(.)", r"\1", s[1:-1])) if s is not None else ("p", p) if p else ("w", w))
        pos = m.end()
    return out

def _wild(pattern, value):  # only '*' is a wildcard here
    return _re.fullmatch(".*".join(_re.escape(x) for x in pattern.split("*")), value, _re.I | _re.S) is not None

def evaluate(query, event):
    """Evaluate query (precedence not > and > or) against event (dict field -> str)."""
    toks = _tokens(query)
    i = 0
    def peek():
        return toks[i] if i < len(toks) else (None, None)
    def take(kind=None, val=None):
        nonlocal i
        t = peek()
        if (kind and t[0] != kind) or (val is not None and t[1] != val):
            raise ValueError("unexpected token %r in %r" % (t, query))
        i += 1
        return t
    def p_or():
        v = p_and()
        while peek() == ("w", "or"):
            take(); r = p_and(); v = v or r
        return v
    def p_and():
        v = p_not()
        while peek() == ("w", "and"):
            take(); r = p_not(); v = v and r
        return v
    def p_not():
        if peek() == ("w", "not"):
            take(); return not p_not()
        return p_atom()
    def p_atom():
        if peek() == ("p", "("):
            take(); v = p_or(); take("p", ")"); return v
        field = take("w")[1]
        val = event[field]
        t = take()
        if t == ("p", "="):
            return _wild(take("str")[1], val)
        if t == ("p", "!="):
            return not _wild(take("str")[1], val)
        if t == ("w", "startswith"):
            return val.lower().startswith(take("str")[1].lower())
        if t == ("w", "notstartswith"):
            return not val.lower().startswith(take("str")[1].lower())
        if t == ("w", "match"):
            return _wild(take("str")[1], val)
        if t == ("w", "in"):
            take("p", "("); res = False
            while True:
                res = _wild(take("str")[1], val) or res
                if peek() == ("p", ","):
                    take(); continue
                break
            take("p", ")"); return res
        raise ValueError("unknown operator %r in %r" % (t, query))
    v = p_or()
    if i != len(toks):
        raise ValueError("trailing tokens in %r" % query)
    return v
# ---------------------------------------------------------------------------------------------


class NotEqBackend(TextQueryTestBackend):
    cidr_expression = None  # no native CIDR support
    convert_or_as_in = False
    convert_not_as_not_eq = True
    not_eq_token = "!="
    not_eq_expression = "{field}!={value}"
    not_startswith_expression = "{field} notstartswith {value}"


def convert(cidr: str, condition: str) -> str:
    rule = f"""
title: negated CIDR
logsource:
    category: test
detection:
    sel:
        ip|cidr: {cidr}
    condition: {condition}
"""
    queries = NotEqBackend(ProcessingPipeline()).convert(SigmaCollection.from_yaml(rule))
    assert len(queries) == 1
    return queries[0]


ADDRESSES = ["9.255.255.255", "10.0.0.0", "10.1.2.3", "11.0.0.1", "11.255.255.255", "12.0.0.0", "110.1.1.1"]

# sanity: the evaluator understands the backend and the single-pattern case is right
q8 = convert("10.0.0.0/8", "not sel")
print("not 10.0.0.0/8 ->", q8)
for ip in ADDRESSES:
    assert evaluate(q8, {"ip": ip}) == (ipaddress.ip_address(ip) not in ipaddress.ip_network("10.0.0.0/8")), ip

q7 = convert("10.0.0.0/7", "not sel")
print("not 10.0.0.0/7 ->", q7)
network = ipaddress.ip_network("10.0.0.0/7")
wrong = [ip for ip in ADDRESSES if evaluate(q7, {"ip": ip}) != (ipaddress.ip_address(ip) not in network)]
if wrong:
    print(
        f"DEFECT: negated CIDR expansion (convert_not_as_not_eq) yields {q7!r}; it matches "
        f"{', '.join(wrong)} which are inside 10.0.0.0/7 and must be excluded"
    )
    sys.exit(0)
print("negated expansion excludes exactly the network")
sys.exit(1)
