"""C06 / d4: with the 'expand' modifier an escaped percent sign (\\%) is a literal '%'. The expand
modifier rewrites the SigmaString object in place, and this object is also the "original value" kept
for serialisation, so to_dict() writes the value without the escapes and the reloaded rule contains
a placeholder where the original rule had literal text."""
import sys
import yaml
from sigma.rule import SigmaRule
from sigma.collection import SigmaCollection
from sigma.backends.test import TextQueryTestBackend
from sigma.processing.pipeline import ProcessingPipeline
from sigma.exceptions import SigmaError

RULE = r"""
title: Test
logsource:
    category: test
detection:
    sel:
        CommandLine|expand|contains: 'echo \%PATH\% %admin_user%'
    condition: sel
"""


def pipeline():
    return ProcessingPipeline.from_dict(
        {
            "name": "placeholders",
            "priority": 10,
            "vars": {"admin_user": ["root"], "PATH": ["EXPANDED"]},
            "transformations": [{"id": "ph", "type": "value_placeholders"}],
        }
    )


def convert(rule):
    try:
        return TextQueryTestBackend(processing_pipeline=pipeline()).convert(SigmaCollection([rule]))
    except SigmaError as e:
        return f"{type(e).__name__}: {e}"


original = SigmaRule.from_yaml(RULE)
d = SigmaRule.from_yaml(RULE).to_dict()
written = d["detection"]["sel"]["CommandLine|expand|contains"]
q_orig = convert(original)
q_dict = convert(SigmaRule.from_dict(d))
q_yaml = convert(SigmaRule.from_yaml(yaml.safe_dump(d, sort_keys=False)))
d_again = SigmaRule.from_dict(d).to_dict()

print("value in rule     :", r"echo \%PATH\% %admin_user%")
print("value in to_dict():", written)
print("original :", q_orig)
print("reloaded :", q_dict)
print("via YAML :", q_yaml)

if q_orig != q_dict or q_orig != q_yaml:
    print(
        "DEFECT: escaped percent signs of an 'expand' value are written unescaped; reloaded rule treats literal %PATH% as placeholder: "
        f"{q_orig} != {q_dict}"
    )
    sys.exit(0)
print("round trip preserved the query")
sys.exit(1)
