"""
C01 witness d1: a detection that is referenced twice in a condition.

The SigmaDetection object of a search identifier is shared between all references of the
identifier in a condition. Each reference overwrites SigmaDetection.parent, so the parent chain of
the leaves of the FIRST reference runs through the LAST reference. Everything that decides on the
spelling of a leaf by its enclosing operators then decides for the wrong place of the tree:

 (a) default NOT handling, no native CIDR expression: grouping of the OR a CIDR value expands to
 (b) convert_not_as_not_eq: whether the leaf is spelled with = or !=
"""
import sys

from sigma.backends.test import TextQueryTestBackend
from sigma.rule import SigmaRule

# --- tiny evaluator for the test backend's query language (standalone, no library code) ---
import re

_TOK = re.compile(
    r'\s*(?:(?P<lp>\()|(?P<rp>\))|(?P<kw>\b(?:and|or|not)\b)'
    r'|(?P<f1>\w+) (?P<op>startswith|endswith|contains) "(?P<v1>[^"]*)"'
    r'|(?P<f2>\w+)(?P<eq>!?=)"(?P<v2>[^"]*)"'
    r'|(?P<nex>not)?exists\((?P<f3>\w+)\))'
)


def _tokens(q):
    pos, out = 0, []
    while pos < len(q):
        if q[pos:].strip() == "":
            break
        m = _TOK.match(q, pos)
        if not m or m.end() == pos:
            raise SyntaxError("can't tokenize %r at %d" % (q, pos))
        pos = m.end()
        if m.group("lp"):
            out.append("(")
        elif m.group("rp"):
            out.append(")")
        elif m.group("kw"):
            out.append(m.group("kw"))
        elif m.group("f1"):
            out.append(("str", m.group("f1"), m.group("op"), m.group("v1")))
        elif m.group("f2"):
            out.append(("str", m.group("f2"), m.group("eq"), m.group("v2")))
        else:
            out.append(("exists", m.group("f3"), not m.group("nex")))
    return out


def _atom(t, event):
    if t[0] == "exists":
        return (t[1] in event) == t[2]
    _, field, op, val = t
    have = event.get(field)
    if have is None:
        return op == "!="
    have, val = have.lower(), val.lower()
    return {
        "=": have == val,
        "!=": have != val,
        "startswith": have.startswith(val),
        "endswith": have.endswith(val),
        "contains": val in have,
    }[op]


def evaluate(query, event, precedence=("not", "and", "or")):
    """Evaluate query on event; precedence lists the operators from tightest to loosest binding."""
    bp = {op: 3 - i for i, op in enumerate(precedence)}
    toks = _tokens(query)
    i = [0]

    def peek():
        return toks[i[0]] if i[0] < len(toks) else None

    def nxt():
        t = peek()
        i[0] += 1
        return t

    def expr(minbp):
        t = nxt()
        if t == "not":
            left = not expr(bp["not"])
        elif t == "(":
            left = expr(0)
            assert nxt() == ")"
        elif isinstance(t, tuple):
            left = _atom(t, event)
        else:
            raise SyntaxError("unexpected token %r in %r" % (t, query))
        while peek() in ("and", "or") and bp[peek()] >= minbp:
            op = nxt()
            right = expr(bp[op] + 1)
            left = (left and right) if op == "and" else (left or right)
        return left

    r = expr(0)
    assert peek() is None, "trailing tokens in %r" % query
    return r
# --- end of evaluator ---


def rule(detection):
    return SigmaRule.from_dict(
        {"title": "t", "logsource": {"category": "test"}, "detection": detection}
    )


failures = []

# (a) ---------------------------------------------------------------------------------------------
class NoNativeCIDRBackend(TextQueryTestBackend):
    cidr_expression = None  # default of TextQueryBackend: CIDR is expanded to prefix matches
    convert_or_as_in = False  # default of Backend


det_a = {
    "net": {"ip|cidr": "192.168.0.0/15"},
    "a": {"fa": "xa"},
    "c": {"fc": "xc"},
    "d": {"fd": "xd"},
    "condition": "(net and a) or (c and (net or d))",
}
query_a = NoNativeCIDRBackend().convert_rule(rule(det_a))[0]
# event: inside the network, nothing else matches. Rule: (T and F) or (F and ...) = False
event_a = {"ip": "192.168.1.1", "fa": "other", "fc": "other", "fd": "other"}
expected_a = False
got_a = evaluate(query_a, event_a)
print("(a) query:", query_a)
print("(a) event:", event_a, "rule says", expected_a, "query says", got_a)
if got_a != expected_a:
    failures.append("CIDR expansion of the first reference not grouped under AND")

# (b) ---------------------------------------------------------------------------------------------
class NotEqBackend(TextQueryTestBackend):
    convert_not_as_not_eq = True
    not_eq_token = "!="


det_b = {
    "a": {"fa": "xa"},
    "b": {"fb": "xb"},
    "c": {"fc": "xc"},
    "condition": "(a and not b) or (c and b)",
}
query_b = NotEqBackend().convert_rule(rule(det_b))[0]
# event: a and b match, c doesn't. Rule: (T and not T) or (F and T) = False
event_b = {"fa": "xa", "fb": "xb", "fc": "other"}
expected_b = False
got_b = evaluate(query_b, event_b)
print("(b) query:", query_b)
print("(b) event:", event_b, "rule says", expected_b, "query says", got_b)
if got_b != expected_b:
    failures.append("'not b' rendered without negation in not-equals mode")

# (b') the other order: the positive reference is rendered negated
det_b2 = dict(det_b, condition="(c and b) or (a and not b)")
query_b2 = NotEqBackend().convert_rule(rule(det_b2))[0]
event_b2 = {"fa": "other", "fb": "xb", "fc": "xc"}  # (T and T) or (F and ..) = True
got_b2 = evaluate(query_b2, event_b2)
print("(b') query:", query_b2)
print("(b') event:", event_b2, "rule says", True, "query says", got_b2)
if got_b2 is not True:
    failures.append("positive reference 'b' rendered as != in not-equals mode")

if failures:
    print("DEFECT: detection referenced twice takes the operator context of its last reference: "
          + "; ".join(failures))
    sys.exit(0)
print("no defect: all queries match the rule")
sys.exit(1)
