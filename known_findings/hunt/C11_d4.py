"""C11 witness: a rule whose *name* is parseable as a UUID (e.g. a 32-digit hex name) cannot be
targeted by name: the filter names it, log source matches, but the rule is not narrowed."""
import sys
from sigma.collection import SigmaCollection
from sigma.backends.test import TextQueryTestBackend

RULE = """
title: Rule
name: {name}
id: 5013332f-8a70-4a04-bcc1-06a98a2cca2e
logsource:
    product: windows
detection:
    sel:
        ra: v
    condition: sel
"""
FILTER = """
title: Filter
logsource:
    product: windows
filter:
    rules:
        - {name}
    flt:
        ff: v
    condition: not flt
"""

def convert(y):
    return TextQueryTestBackend().convert(SigmaCollection.from_yaml(y))

expected = ['ra="v" and not ff="v"']
# sanity: ordinary name works
assert convert(RULE.format(name="my_rule") + "---" + FILTER.format(name="my_rule")) == expected

defects = []
for name in ("d41d8cd98f00b204e9800998ecf8427e",          # md5-like rule name
             "deadbeef-dead-beef-dead-beefdeadbeef",      # name in UUID layout, different from the rule's id
             "ABCDEF0123456789ABCDEF0123456789"):
    got = convert(RULE.format(name=name) + "---" + FILTER.format(name=name))
    print(name, "->", got)
    if got != expected:
        defects.append(f"rule named {name!r} referenced by name converts to {got[0]!r}")

if defects:
    print("DEFECT: filter names the rule by its name but the rule is not narrowed: " + defects[0])
    sys.exit(0)
print("OK")
sys.exit(1)
