"""
C01 witness d4: modifier chain utf16|base64 (and utf16|base64offset|contains).

The Sigma specification defines 'utf16' as "prepends a byte order mark and encodes UTF16" and
allows it only in front of the base64 modifiers. pySigma keeps the encoded bytes in a str; the
byte order mark is stored as the CHARACTER U+FEFF. When base64 turns the string into bytes (UTF-8),
the character becomes EF BB BF (the UTF-8 BOM) instead of the bytes FF FE, so the searched base64
text is not the encoding of any UTF-16 string.
"""
import base64
import re
import sys

from sigma.backends.test import TextQueryTestBackend
from sigma.rule import SigmaRule


def convert(key, value):
    rule = SigmaRule.from_dict(
        {
            "title": "t",
            "logsource": {"category": "test"},
            "detection": {"sel": {key: value}, "condition": "sel"},
        }
    )
    return TextQueryTestBackend().convert_rule(rule)[0]


failures = []
plain = "Ab"
expected_bytes = plain.encode("utf-16")  # BOM FF FE + UTF-16LE
assert expected_bytes == b"\xff\xfeA\x00b\x00"

# 1. utf16|base64: the value in the query must be base64 of the UTF-16 bytes with BOM
query = convert("fa|utf16|base64", plain)
m = re.fullmatch(r'fa="([A-Za-z0-9+/=]+)"', query)
assert m, query
decoded = base64.b64decode(m.group(1))
print("utf16|base64 query:", query, "-> decoded bytes", decoded, "expected", expected_bytes)
if decoded != expected_bytes:
    failures.append(f"utf16|base64 searches for base64 of {decoded!r} instead of {expected_bytes!r}")

# 2. the sibling modifiers are right, so this is not a convention of the library
for mod, enc in (("wide", "utf-16le"), ("utf16be", "utf-16be")):
    q = convert(f"fa|{mod}|base64", plain)
    d = base64.b64decode(re.fullmatch(r'fa="([A-Za-z0-9+/=]+)"', q).group(1))
    print(f"{mod}|base64 query:", q, "-> decoded bytes", d)
    assert d == plain.encode(enc), (mod, d)

# 3. utf16|base64offset|contains: an event field that holds base64(UTF-16 text with BOM) must match
event_value = base64.b64encode("Ab and more".encode("utf-16")).decode()
query = convert("fa|utf16|base64offset|contains", plain)
needles = re.findall(r'fa contains "([^"]*)"', query)
print("utf16|base64offset|contains query:", query)
print("event value:", event_value, "matches:", any(n in event_value for n in needles))
if not any(n in event_value for n in needles):
    failures.append("utf16|base64offset|contains doesn't match base64 of an UTF-16 text starting with the value")

if failures:
    print("DEFECT: utf16 modifier emits U+FEFF as UTF-8 (EF BB BF) instead of the BOM bytes FF FE: "
          + "; ".join(failures))
    sys.exit(0)
print("no defect: utf16|base64 encodes BOM + UTF-16LE")
sys.exit(1)
