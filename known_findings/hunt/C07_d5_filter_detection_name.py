# C07 / d5: a filter whose detection name is not a string (YAML int/null/bool key) loads without
# error but escapes as TypeError when the collection applies it
from sigma.collection import SigmaCollection
import sys
from sigma.exceptions import SigmaError


def probe(label, loader):
    """Returns list of violation strings for one document/loader."""
    problems = []
    strict_exc = None
    try:
        loader(False)
    except SigmaError as e:
        strict_exc = e
    except Exception as e:  # noqa
        problems.append(f"{label}: strict loading raised {type(e).__name__}({e}) instead of a SigmaError")
        strict_exc = e
    try:
        obj = loader(True)
    except Exception as e:  # noqa
        problems.append(f"{label}: collect_errors=True raised {type(e).__name__}({e})")
        return problems
    errors = list(obj.errors)
    if (strict_exc is not None) != bool(errors):
        problems.append(f"{label}: strict raised {strict_exc!r} but collected errors are {errors!r}")
    elif errors and isinstance(strict_exc, SigmaError) and not (errors[0] == strict_exc):
        problems.append(f"{label}: first collected error {errors[0]!r} != strict error {strict_exc!r}")
    return problems


def finish(problems):
    if problems:
        print("DEFECT: " + " | ".join(problems))
        sys.exit(0)
    print("OK: library behaves as the property says")
    sys.exit(1)

RULE = """
title: Base
name: rule_a
logsource:
    category: process_creation
detection:
    sel:
        Image: a.exe
    condition: sel
---
"""

FILTER = """
title: Filter
logsource:
    category: process_creation
filter:
    rules: any
    {key}:
        User: admin
    condition: not 1 of them
"""

problems = []
for key in ("2024", "~", "true", "1.5"):
    doc = RULE + FILTER.format(key=key)
    problems += probe(
        f"filter detection name {key}",
        lambda c, doc=doc: SigmaCollection.from_yaml(doc, collect_errors=c),
    )
finish(problems)
