"""C15 / d5: not_equals_context_manager() copies what it reads through the *instance* into the
backend *class*. If a backend instance carries its own expression template (e.g. chosen by a
backend option in __init__), the first negated conversion of that instance permanently overwrites
the class attribute, and every other / later instance of the class renders different queries."""
import sys
from sigma.backends.test import TextQueryTestBackend
from sigma.rule import SigmaRule


class OptionBackend(TextQueryTestBackend):
    """Test backend with != support and an instance option selecting the equality operator."""

    convert_not_as_not_eq = True
    not_eq_token = "!="
    not_eq_expression = "{field}!={value}"
    not_startswith_expression = "not {field} startswith {value}"
    not_endswith_expression = "not {field} endswith {value}"
    not_contains_expression = "not {field} contains {value}"

    def __init__(self, processing_pipeline=None, collect_errors=False, strict_eq=False, **kwargs):
        super().__init__(processing_pipeline, collect_errors, **kwargs)
        if strict_eq:  # per-instance configuration
            self.eq_expression = "{field}=={value}"
            self.not_eq_expression = "{field}!=={value}"


PROBE = """
title: probe
logsource:
  product: x
detection:
  sel:
    f: a
  condition: sel
"""
NEGATED = """
title: rule with negation
logsource:
  product: x
detection:
  sel:
    f: a
  flt:
    g: b
  condition: sel and not flt
"""


def probe(backend):
    return backend.convert_rule(SigmaRule.from_yaml(PROBE))


fresh = probe(OptionBackend())  # ['f="a"']

default_backend = OptionBackend()  # created before, used after
strict_backend = OptionBackend(strict_eq=True)
positive = strict_backend.convert_rule(SigmaRule.from_yaml(PROBE))  # no leak yet
between = probe(OptionBackend())
negated = strict_backend.convert_rule(SigmaRule.from_yaml(NEGATED))  # negated rendering
after_existing = probe(default_backend)
after_new = probe(OptionBackend())

print("fresh default instance             :", fresh)
print("strict instance, positive rule     :", positive, "-> default instance:", between)
print("strict instance, negated rule      :", negated)
print("existing default instance afterward:", after_existing)
print("new default instance afterward     :", after_new)
print("class attribute now                :", OptionBackend.eq_expression)

if after_existing != fresh or after_new != fresh:
    print(
        "DEFECT: negated conversion on one backend instance changed the class template of all instances: "
        f"{after_new} instead of {fresh}"
    )
    sys.exit(0)
sys.exit(1)
