"""C13 / d5: after a pipeline has been concatenated with another one (p + q, also done implicitly by every
backend that is given the pipeline), state conditions of its items read the state of the *other* pipeline
object, which is not reset when the original pipeline processes the next rule. A state condition then sees
state that was set for a previous rule."""
import sys
import warnings

warnings.simplefilter("ignore")

from sigma.rule import SigmaRule
from sigma.processing.pipeline import ProcessingPipeline
from sigma.backends.test import TextQueryTestBackend

RULE = """
title: Rule for category {cat}
status: test
logsource:
    category: {cat}
detection:
    sel:
        k: v
    condition: sel
"""

PIPELINE = """
transformations:
  - id: set
    type: set_state
    key: marked
    val: "yes"
    rule_conditions:
      - type: logsource
        category: special
  # marker: only rules for which the state was set by 'set'
  - id: marker
    type: field_name_prefix
    prefix: marked_
    rule_conditions:
      - type: processing_state
        key: marked
        val: "yes"
"""


def rule(cat):
    return SigmaRule.from_yaml(RULE.format(cat=cat))


problems = []

# --- Scenario 1: one user pipeline object handed to two backend instances -------------------------------
shared = ProcessingPipeline.from_yaml(PIPELINE)
b1 = TextQueryTestBackend(shared)
b2 = TextQueryTestBackend(shared)
# convert_rule() builds the effective pipeline (backend + user + output format pipeline) on first use
first = b1.convert_rule(rule("ordinary"))[0]  # state never set for this rule -> no marker
b2.convert_rule(rule("special"))  # other backend converts a rule for which the state is set
second = b1.convert_rule(rule("ordinary"))[0]  # same input as before
print("scenario 1:", first, "|", second)
if first != 'k="v"':
    problems.append(f"scenario 1 first conversion {first!r}")
if second != 'k="v"':
    problems.append(
        f"backend 1 converts the same 'ordinary' rule to {second!r} after another backend used the shared "
        f"pipeline (before: {first!r}); state 'marked' was never set for this rule"
    )

# --- Scenario 2: plain ProcessingPipeline API ------------------------------------------------------------
p = ProcessingPipeline.from_yaml(PIPELINE)
q = ProcessingPipeline.from_yaml("transformations: []")
combined = p + q
combined.apply(SigmaRule.from_yaml(RULE.format(cat="special")))
p.apply(SigmaRule.from_yaml(RULE.format(cat="ordinary")))
print("scenario 2: p.applied =", p.applied, " p.state =", p.state)
if p.applied != [False, False]:
    problems.append(
        f"p.apply(ordinary rule) applied items {p.applied} with p.state={p.state}: the marker item saw state "
        "left over from a rule processed by p + q"
    )

if problems:
    print("DEFECT: " + problems[0])
    for extra in problems[1:]:
        print("   also:", extra)
    sys.exit(0)
print("OK: state conditions only observe state set for the rule being processed")
sys.exit(1)
