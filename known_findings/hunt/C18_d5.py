"""
C18 / d5: backend without native CIDR support and without group_expression: the expanded CIDR is
emitted ungrouped below AND, silently, although the library refuses (NotImplementedError "Group
expressions are not supported by the backend") everywhere else a group is required - including
"not sel" for the very same detection.
"""
import ipaddress
import itertools
import sys

from sigma.backends.test import TextQueryTestBackend
from sigma.collection import SigmaCollection
from sigma.exceptions import SigmaError
from sigma.processing.pipeline import ProcessingPipeline

# --- tiny evaluator for queries of TextQueryTestBackend-like backends ------------------------
import re as _re, fnmatch as _fn

_TOK = _re.compile(r'\s*(?:("(?:\\.|[^"\\])*")|(\(|\)|,|!=|=)|([A-Za-z_][A-Za-z_0-9]*))')

def _tokens(q):
    pos, out = 0, []
    while pos < len(q):
        if q[pos:].strip() == "":
            break
        m = _TOK.match(q, pos)
        if not m:
            raise ValueError("cannot tokenize %r at %d" % (q, pos))
        s, p, w = m.groups()
        out.append(("str", _re.sub(r"\\(.)", r"\1", s[1:-1])) if s is not None else ("p", p) if p else ("w", w))
        pos = m.end()
    return out

def _wild(pattern, value):  # only '*' is a wildcard here
    return _re.fullmatch(".*".join(_re.escape(x) for x in pattern.split("*")), value, _re.I | _re.S) is not None

def evaluate(query, event):
    """Evaluate query (precedence not > and > or) against event (dict field -> str)."""
    toks = _tokens(query)
    i = 0
    def peek():
        return toks[i] if i < len(toks) else (None, None)
    def take(kind=None, val=None):
        nonlocal i
        t = peek()
        if (kind and t[0] != kind) or (val is not None and t[1] != val):
            raise ValueError("unexpected token %r in %r" % (t, query))
        i += 1
        return t
    def p_or():
        v = p_and()
        while peek() == ("w", "or"):
            take(); r = p_and(); v = v or r
        return v
    def p_and():
        v = p_not()
        while peek() == ("w", "and"):
            take(); r = p_not(); v = v and r
        return v
    def p_not():
        if peek() == ("w", "not"):
            take(); return not p_not()
        return p_atom()
    def p_atom():
        if peek() == ("p", "("):
            take(); v = p_or(); take("p", ")"); return v
        field = take("w")[1]
        val = event[field]
        t = take()
        if t == ("p", "="):
            return _wild(take("str")[1], val)
        if t == ("p", "!="):
            return not _wild(take("str")[1], val)
        if t == ("w", "startswith"):
            return val.lower().startswith(take("str")[1].lower())
        if t == ("w", "notstartswith"):
            return not val.lower().startswith(take("str")[1].lower())
        if t == ("w", "match"):
            return _wild(take("str")[1], val)
        if t == ("w", "in"):
            take("p", "("); res = False
            while True:
                res = _wild(take("str")[1], val) or res
                if peek() == ("p", ","):
                    take(); continue
                break
            take("p", ")"); return res
        raise ValueError("unknown operator %r in %r" % (t, query))
    v = p_or()
    if i != len(toks):
        raise ValueError("trailing tokens in %r" % query)
    return v
# ---------------------------------------------------------------------------------------------


class NoGroupBackend(TextQueryTestBackend):
    cidr_expression = None  # no native CIDR support
    convert_or_as_in = False
    group_expression = None  # default of TextQueryBackend: query language has no grouping


RULE = """
title: CIDR and something else
logsource:
    category: test
detection:
    sel:
        ip|cidr: 10.0.0.0/7
        x: y
    condition: sel
"""

try:
    queries = NoGroupBackend(ProcessingPipeline()).convert(SigmaCollection.from_yaml(RULE))
except (SigmaError, NotImplementedError) as e:
    print(f"conversion refused with {type(e).__name__}: {e} - fine")
    sys.exit(1)

query = queries[0]
print("query:", query)
network = ipaddress.ip_network("10.0.0.0/7")
wrong = []
for ip, x in itertools.product(["9.9.9.9", "10.1.2.3", "11.1.2.3", "12.0.0.0"], ["y", "z"]):
    expected = ipaddress.ip_address(ip) in network and x == "y"
    if evaluate(query, {"ip": ip, "x": x}) != expected:
        wrong.append((ip, x))
if wrong:
    print(
        f"DEFECT: without group_expression the expanded CIDR is silently emitted ungrouped below AND: {query!r} "
        f"matches ip={wrong[0][0]} x={wrong[0][1]} although the rule requires x=y"
    )
    sys.exit(0)
print("query means what the rule means")
sys.exit(1)
