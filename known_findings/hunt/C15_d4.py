"""C15 / d4: Backend.convert_correlation_rule() never initialises the processing pipeline.
Whether a correlation rule can be converted by a backend depends on whether this backend object
happened to convert some unrelated rule before (convert_rule() initialises lazily, l.259-263)."""
import sys
from sigma.backends.test import TextQueryTestBackend
from sigma.collection import SigmaCollection
from sigma.rule import SigmaRule

COLLECTION = """
title: base rule
name: base_rule
logsource:
  product: x
detection:
  sel:
    f: 1
  condition: sel
---
title: probe correlation
correlation:
  type: event_count
  rules:
    - base_rule
  group-by:
    - user
  timespan: 5m
  condition:
    gte: 10
"""
UNRELATED = """
title: unrelated
logsource:
  product: y
detection:
  sel:
    z: 1
  condition: sel
"""


def scenario(unrelated_rule_first: bool):
    """Same freshly loaded probe, same backend configuration; the only difference is whether the
    backend converted an unrelated rule earlier."""
    coll = SigmaCollection.from_yaml(COLLECTION)
    base, corr = coll.rules
    TextQueryTestBackend().convert_rule(base)  # referenced rule was converted (by another instance)
    backend = TextQueryTestBackend(collect_errors=True)
    if unrelated_rule_first:
        backend.convert_rule(SigmaRule.from_yaml(UNRELATED))
    try:
        return ("ok", backend.convert_correlation_rule(corr))
    except Exception as e:  # noqa
        return ("raised", type(e).__name__, str(e))


cold = scenario(False)
warm = scenario(True)
print("backend used for nothing before :", cold)
print("backend converted unrelated rule:", warm)

if cold != warm:
    print(
        "DEFECT: result of convert_correlation_rule(probe) depends on an unrelated earlier conversion: "
        f"{cold[:2]} on a new backend (not even collected as error with collect_errors=True) vs. {warm[0]} after convert_rule(other)"
    )
    sys.exit(0)
sys.exit(1)
