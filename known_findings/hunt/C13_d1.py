"""C13 / d1: rule_attribute condition on an integer rule attribute is true for every operator and value."""
import operator
import sys
import warnings

warnings.simplefilter("ignore")

from sigma.collection import SigmaCollection
from sigma.processing.pipeline import ProcessingPipeline
from sigma.backends.test import TextQueryTestBackend

RULE = """
title: Rule with an integer custom attribute
status: test
logsource:
    category: test
risk_score: 5
detection:
    sel:
        k: v
    condition: sel
"""

OPS = {
    "eq": operator.eq,
    "ne": operator.ne,
    "gte": operator.ge,
    "gt": operator.gt,
    "lte": operator.le,
    "lt": operator.lt,
}


def marker_applied(op: str, value) -> bool:
    """The marker transformation (field name prefix) is gated by the rule attribute condition."""
    pipeline = ProcessingPipeline.from_dict(
        {
            "transformations": [
                {
                    "id": "marker",
                    "type": "field_name_prefix",
                    "prefix": "marked_",
                    "rule_conditions": [
                        {
                            "type": "rule_attribute",
                            "attribute": "risk_score",
                            "op": op,
                            "value": value,
                        }
                    ],
                }
            ]
        }
    )
    query = TextQueryTestBackend(pipeline).convert(SigmaCollection.from_yaml(RULE))[0]
    if query == 'marked_k="v"':
        return True
    if query == 'k="v"':
        return False
    raise RuntimeError(f"unexpected query {query!r}")


wrong = []
for op, fn in OPS.items():
    for value in (4, 5, 6, "4", "6", 5.5):
        expected = fn(5, float(value))  # documented: numeric relation between attribute and value
        got = marker_applied(op, value)
        if got != expected:
            wrong.append(f"risk_score(5) {op} {value!r}: applied={got}, condition is {expected}")

if wrong:
    print(
        f"DEFECT: rule_attribute on integer attribute applies the item although the condition is false "
        f"in {len(wrong)} cases, e.g. {wrong[0]}"
    )
    for w in wrong:
        print("   ", w)
    sys.exit(0)
print("OK: numeric rule_attribute conditions gate the item correctly")
sys.exit(1)
