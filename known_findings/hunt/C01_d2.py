"""
C01 witness d2: 'not 1 of filter_*' (selector that resolves to exactly one detection) over a CIDR
value that expands to several prefixes, on a backend without native CIDR expression.

The selector builds a ConditionOR with one argument; ConditionItem.postprocess returns the single
argument instead of the OR, but the argument keeps the dropped OR in its parent chain. The CIDR
conversion asks the parent chain for the enclosing operator, sees "OR" and doesn't group the OR it
expands to - although the operator that really encloses it in the converted tree is NOT (or AND).
"""
import sys

from sigma.backends.test import TextQueryTestBackend
from sigma.rule import SigmaRule

# --- tiny evaluator for the test backend's query language (standalone, no library code) ---
import re

_TOK = re.compile(
    r'\s*(?:(?P<lp>\()|(?P<rp>\))|(?P<kw>\b(?:and|or|not)\b)'
    r'|(?P<f1>\w+) (?P<op>startswith|endswith|contains) "(?P<v1>[^"]*)"'
    r'|(?P<f2>\w+)(?P<eq>!?=)"(?P<v2>[^"]*)"'
    r'|(?P<nex>not)?exists\((?P<f3>\w+)\))'
)


def _tokens(q):
    pos, out = 0, []
    while pos < len(q):
        if q[pos:].strip() == "":
            break
        m = _TOK.match(q, pos)
        if not m or m.end() == pos:
            raise SyntaxError("can't tokenize %r at %d" % (q, pos))
        pos = m.end()
        if m.group("lp"):
            out.append("(")
        elif m.group("rp"):
            out.append(")")
        elif m.group("kw"):
            out.append(m.group("kw"))
        elif m.group("f1"):
            out.append(("str", m.group("f1"), m.group("op"), m.group("v1")))
        elif m.group("f2"):
            out.append(("str", m.group("f2"), m.group("eq"), m.group("v2")))
        else:
            out.append(("exists", m.group("f3"), not m.group("nex")))
    return out


def _atom(t, event):
    if t[0] == "exists":
        return (t[1] in event) == t[2]
    _, field, op, val = t
    have = event.get(field)
    if have is None:
        return op == "!="
    have, val = have.lower(), val.lower()
    return {
        "=": have == val,
        "!=": have != val,
        "startswith": have.startswith(val),
        "endswith": have.endswith(val),
        "contains": val in have,
    }[op]


def evaluate(query, event, precedence=("not", "and", "or")):
    """Evaluate query on event; precedence lists the operators from tightest to loosest binding."""
    bp = {op: 3 - i for i, op in enumerate(precedence)}
    toks = _tokens(query)
    i = [0]

    def peek():
        return toks[i[0]] if i[0] < len(toks) else None

    def nxt():
        t = peek()
        i[0] += 1
        return t

    def expr(minbp):
        t = nxt()
        if t == "not":
            left = not expr(bp["not"])
        elif t == "(":
            left = expr(0)
            assert nxt() == ")"
        elif isinstance(t, tuple):
            left = _atom(t, event)
        else:
            raise SyntaxError("unexpected token %r in %r" % (t, query))
        while peek() in ("and", "or") and bp[peek()] >= minbp:
            op = nxt()
            right = expr(bp[op] + 1)
            left = (left and right) if op == "and" else (left or right)
        return left

    r = expr(0)
    assert peek() is None, "trailing tokens in %r" % query
    return r
# --- end of evaluator ---


class NoNativeCIDRBackend(TextQueryTestBackend):
    cidr_expression = None  # default of TextQueryBackend: CIDR is expanded to prefix matches
    convert_or_as_in = False  # default of Backend


def convert(condition):
    rule = SigmaRule.from_dict(
        {
            "title": "t",
            "logsource": {"category": "test"},
            "detection": {
                "selection": {"fa": "xa"},
                "filter_net": {"ip|cidr": "192.168.0.0/15"},
                "condition": condition,
            },
        }
    )
    return NoNativeCIDRBackend().convert_rule(rule)[0]


failures = []
# Event: selection matches, ip is in the second /16 of the filtered network.
event = {"fa": "xa", "ip": "192.169.3.4"}

q_not = convert("selection and not 1 of filter_*")  # rule: T and not T = False
got = evaluate(q_not, event)
print("query:", q_not)
print("event:", event, "rule says False, query says", got)
if got is not False:
    failures.append("'selection and not 1 of filter_*' matches a filtered event")

# Event: selection doesn't match, ip in the network. 'selection and 1 of filter_*' = False
event2 = {"fa": "other", "ip": "192.169.3.4"}
q_and = convert("selection and 1 of filter_*")
got2 = evaluate(q_and, event2)
print("query:", q_and)
print("event:", event2, "rule says False, query says", got2)
if got2 is not False:
    failures.append("'selection and 1 of filter_*' matches without selection")

# For comparison: the same rule with the identifier written out is converted correctly.
q_ref = convert("selection and not filter_net")
print("reference ('selection and not filter_net'):", q_ref)

if failures:
    print("DEFECT: CIDR expansion under a one-element selector is not grouped: " + "; ".join(failures))
    sys.exit(0)
print("no defect: queries match the rule")
sys.exit(1)
