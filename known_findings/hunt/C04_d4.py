"""expand|wide, expand|utf16be, expand|utf16: the resolved placeholder value is not encoded."""
import re, sys
from sigma.rule import SigmaRule
from sigma.backends.test import TextQueryTestBackend
from sigma.processing.pipeline import ProcessingPipeline
from sigma.exceptions import SigmaError

RULE = """
title: wide account name
logsource: {category: test}
detection:
    sel:
        f|expand|%s: 'user=%%user%%;'
    condition: sel
"""
PIPELINE = """
name: resolve placeholders
priority: 10
vars:
    user: admin
transformations:
    - type: value_placeholders
"""
payload = "user=admin;"
BOM = b"\xef\xbb\xbf"  # the library's present form of the BOM (known problem, not judged here)

defects = []
for mod, codec, prefixes in (
    ("wide", "utf-16le", [b""]),
    ("utf16be", "utf-16be", [b""]),
    ("utf16", "utf-16le", [BOM, b"\xff\xfe"]),
):
    try:
        rule = SigmaRule.from_yaml(RULE % mod)
        query = TextQueryTestBackend(ProcessingPipeline.from_yaml(PIPELINE)).convert_rule(rule)[0]
    except SigmaError as e:
        print(f"{mod}: rejected with {type(e).__name__}: {e} - allowed")
        continue
    m = re.fullmatch(r'f="(.*)"', query, re.S)
    got = m.group(1).encode("utf-8", "surrogateescape") if m else None
    want = [p + payload.encode(codec) for p in prefixes]
    print(mod, "->", repr(query))
    if got not in want:
        defects.append(
            f"f|expand|{mod} with user=admin: value bytes {got!r} are not the {codec} form {want[0]!r} "
            f"of {payload!r} (the inserted 'admin' stays single-byte), and no rejection"
        )

if defects:
    print("DEFECT: " + defects[0])
    for d in defects[1:]:
        print("  also: " + d)
    sys.exit(0)
sys.exit(1)
