"""
C17 / d1: replacements of a placeholder are AND-linked when the detection item carries the
'all' modifier, although the property demands that the configured replacements of one placeholder
are OR-linked (the way windash/base64offset expansions stay OR-linked via SigmaExpansion).

Rule:      f|expand|all: ['%a%']        vars: a = [x, y]
Meaning:   the list has ONE value; x and y are alternatives for it -> f=x or f=y
Observed:  f="x" and f="y"  (matches no event at all)
"""
import re
import sys

from sigma.rule import SigmaRule
from sigma.backends.test import TextQueryTestBackend
from sigma.processing.pipeline import ProcessingPipeline
from sigma.exceptions import SigmaError


class Backend(TextQueryTestBackend):
    # no "in"/"contains-all" list expressions: the query only consists of f="v" atoms, and/or/not
    convert_or_as_in = False
    convert_and_as_in = False


def evaluate(query: str, event: dict) -> bool:
    """Evaluate a query of the test backend (atoms field="value", and/or/not, parentheses)."""

    def atom(m):
        return str(event.get(m.group(1)) == m.group(2))

    expr = re.sub(r"(\w+)=\"([^\"]*)\"", atom, query)
    if not re.fullmatch(r"[\sA-Za-z()]*", expr):
        raise ValueError(f"can't evaluate query: {query!r} -> {expr!r}")
    return bool(eval(expr, {"__builtins__": {}}, {}))


def convert(detection: dict) -> str:
    pipeline = ProcessingPipeline.from_dict(
        {
            "vars": {"a": ["x", "y"]},
            "transformations": [{"type": "value_placeholders"}],
        }
    )
    rule = SigmaRule.from_dict(
        {"title": "t", "logsource": {"category": "test"}, "detection": detection}
    )
    return Backend(pipeline).convert_rule(rule)[0]


try:
    # control: without 'all' the replacements are OR-linked
    q_plain = convert({"sel": {"f|expand": ["%a%"]}, "condition": "sel"})
    # with 'all': the only value of the list is the placeholder; its replacements x, y are
    # alternatives for this one value and must stay OR-linked.
    q_all = convert({"sel": {"f|expand|all": ["%a%"]}, "condition": "sel"})
    # two values: (x or y) and z
    q_all2 = convert({"sel": {"f|expand|all": ["%a%", "x"]}, "condition": "sel"})
except SigmaError as e:
    print(f"conversion failed with Sigma error: {type(e).__name__}: {e}")
    sys.exit(1)

print("without all :", q_plain)
print("with all    :", q_all)
print("with all (2):", q_all2)

ev_x, ev_y, ev_z = {"f": "x"}, {"f": "y"}, {"f": "z"}
assert evaluate(q_plain, ev_x) and evaluate(q_plain, ev_y) and not evaluate(q_plain, ev_z)

bad = []
if not (evaluate(q_all, ev_x) and evaluate(q_all, ev_y)):
    bad.append(f"'f|expand|all: [%a%]' (a=[x,y]) -> {q_all!r} matches neither f=x nor f=y")
if not evaluate(q_all2, ev_x):
    bad.append(
        f"'f|expand|all: [%a%, x]' (a=[x,y]) means (f=x or f=y) and f=x, but {q_all2!r} does not match f=x"
    )

if bad:
    print("DEFECT: placeholder replacements are AND-linked under the 'all' modifier: " + "; ".join(bad))
    sys.exit(0)
print("replacements are OR-linked under 'all' as the property demands")
sys.exit(1)
