"""C09 witness d1: an unquoted numeric rule reference (YAML int) is resolved as a list POSITION.

`rules: [0]` in a correlation rule names no rule of the set (no rule has name/id "0"), so every
ordering of the documents must fail identically with a Sigma error at load time.  Instead
SigmaCollection.__getitem__ treats the int as an index into SigmaCollection.rules, so the reference
silently binds to whichever document happens to be first - a different rule (or the correlation rule
itself) for different document orders.
"""
import itertools
import sys

from sigma.backends.test import TextQueryTestBackend
from sigma.collection import SigmaCollection
from sigma.exceptions import SigmaError

P1 = """
title: P1
name: p1
logsource: {category: test}
detection:
    sel: {f: v1}
    condition: sel
"""
P2 = """
title: P2
name: p2
logsource: {category: test}
detection:
    sel: {f: v2}
    condition: sel
"""
C1 = """
title: C1
name: c1
correlation:
    type: event_count
    rules:
        - 0
    group-by: [user]
    timespan: 5m
    condition: {gte: 2}
"""
DOCS = [P1, P2, C1]


def outcome(order):
    try:
        col = SigmaCollection.from_yaml("---".join(DOCS[i] for i in order))
    except SigmaError as e:
        return ("load-error", type(e).__name__)
    try:
        return ("ok", tuple(sorted(TextQueryTestBackend().convert(col))))
    except SigmaError as e:
        return ("convert-error", type(e).__name__)


outcomes = {order: outcome(order) for order in itertools.permutations(range(3))}
distinct = set(outcomes.values())
for order, o in outcomes.items():
    print(order, o)

all_load_errors = all(o[0] == "load-error" for o in distinct)
if len(distinct) == 1 and all_load_errors:
    print("OK: the numeric reference is reported as a missing rule for every document order")
    sys.exit(1)
print(
    f"DEFECT: rule reference 0 (YAML int) is resolved by list position: {len(distinct)} different "
    f"outcomes over the 6 document orders, none/only some of them the required load-time Sigma error"
)
sys.exit(0)
