"""C09 witness d4: reference state of an earlier collection leaks into later collections.

`_output` / `_backreferences` live on the rule objects and SigmaCollection.resolve_rule_references()
only ever adds to them.  Rule objects that were once part of a collection containing a non-generating
correlation rule stay "referenced, no output" for ever - also in a merged/re-built collection in which
no correlation rule refers to them any more.  The property says an unreferenced rule emits its query,
whatever way the collection was put together (merge, from_dicts with parsed rules, constructor).
"""
import sys

from sigma.backends.test import TextQueryTestBackend
from sigma.collection import SigmaCollection
from sigma.rule import SigmaRule

FULL = """
title: P1
name: p1
logsource: {category: test}
detection:
    sel: {f: v1}
    condition: sel
---
title: P2
name: p2
logsource: {category: test}
detection:
    sel: {f: v2}
    condition: sel
---
title: C1
name: c1
correlation:
    type: event_count
    rules: [p1]
    group-by: [user]
    timespan: 5m
    condition: {gte: 2}
"""
EXPECTED_PLAIN = ['f="v1"', 'f="v2"']

# reference: the two plain rules loaded on their own
fresh = SigmaCollection.from_yaml("---".join(FULL.split("---")[:2]))
assert sorted(TextQueryTestBackend().convert(fresh)) == EXPECTED_PLAIN

problems = []
for label, build in {
    "merge": lambda rules: SigmaCollection.merge([SigmaCollection([r]) for r in rules]),
    "from_dicts(parsed rules)": lambda rules: SigmaCollection.from_dicts(rules),
    "SigmaCollection(list)": lambda rules: SigmaCollection(rules),
}.items():
    full = SigmaCollection.from_yaml(FULL)  # p1 is referenced by c1 here (generate: false)
    plain_rules = [r for r in full.rules if isinstance(r, SigmaRule)]  # e.g. for a backend without correlation support
    sub = build(plain_rules)
    assert len(sub.rules) == 2 and all(isinstance(r, SigmaRule) for r in sub.rules)
    unreferenced = [r.title for r in sub.get_unreferenced_rules()]
    queries = sorted(TextQueryTestBackend().convert(sub))
    print(f"{label}: unreferenced={unreferenced} queries={queries}")
    if queries != EXPECTED_PLAIN:
        problems.append(label)

if problems:
    print(
        "DEFECT: rule P1 is unreferenced in the new collection but emits no query (stale _output/_backreferences "
        "from the collection it was loaded with) via: " + ", ".join(problems)
    )
    sys.exit(0)
print("OK: reference state is recomputed per collection")
sys.exit(1)
