"""expand|base64 and expand|base64offset: the payload is only known after the placeholder is resolved."""
import base64, sys
from sigma.rule import SigmaRule
from sigma.backends.test import TextQueryTestBackend
from sigma.processing.pipeline import ProcessingPipeline
from sigma.exceptions import SigmaError

RULE = """
title: encoded account name
logsource: {category: test}
detection:
    sel:
        f|expand|%s: 'net user %%user%%'
    condition: sel
"""
PIPELINE = """
name: resolve placeholders
priority: 10
vars:
    user: admin
transformations:
    - type: value_placeholders
"""
literal = b"net user %user%"   # the text of the placeholder, not a payload anybody searches for
real = b"net user admin"      # the payload after resolving the placeholder

defects = []
for mod in ("base64", "base64offset|contains"):
    try:
        rule = SigmaRule.from_yaml(RULE % mod)
        query = TextQueryTestBackend(ProcessingPipeline.from_yaml(PIPELINE)).convert_rule(rule)[0]
    except SigmaError as e:
        print(f"{mod}: rejected with {type(e).__name__}: {e} - allowed")
        continue
    print(mod, "->", query)
    enc_real = base64.b64encode(real).decode()
    enc_literal = base64.b64encode(literal).decode()
    if mod == "base64":
        good = f'"{enc_real}"' in query
        bad = enc_literal in query
    else:  # compare with the aligned form, cut so that it is independent of padding
        good = enc_real[:16] in query
        bad = enc_literal[:16] in query and base64.b64encode(b"net user %us").decode() in query
    if bad or not good:
        defects.append(
            f"f|expand|{mod} with user=admin gives {query}: Base64 of the placeholder text "
            f"{literal!r} instead of the payload {real!r}, and no rejection"
        )

if defects:
    print("DEFECT: " + defects[0])
    for d in defects[1:]:
        print("  also: " + d)
    sys.exit(0)
sys.exit(1)
