"""C11 witness: a non-string entry in the filter's rule list (e.g. an empty YAML list item = null,
or a number) makes the filter apply to every rule under the log source, although the list names none of them."""
import sys
from sigma.collection import SigmaCollection
from sigma.backends.test import TextQueryTestBackend
from sigma.exceptions import SigmaError

RULES = """
title: Rule A
name: rule_a
logsource:
    product: windows
detection:
    sel:
        ra: v
    condition: sel
---
title: Rule B
name: rule_b
logsource:
    product: windows
detection:
    sel:
        rb: v
    condition: sel
"""
FILTER = """
title: Filter
logsource:
    product: windows
filter:
    rules:
{entries}
    flt:
        ff: v
    condition: not flt
"""

def convert(y):
    return TextQueryTestBackend().convert(SigmaCollection.from_yaml(y))

assert convert(RULES) == ['ra="v"', 'rb="v"']
# sanity: a list naming only rule_a narrows only rule_a
assert convert(RULES + "---" + FILTER.format(entries="        - rule_a")) == ['ra="v" and not ff="v"', 'rb="v"']

defects = []
for label, entries in [
    ("rule_a + empty list item (null)", "        - rule_a\n        -"),
    ("only an empty list item (null)", "        -"),
    ("number 0", "        - 0"),
    ("float 1.5", "        - 1.5"),
    ("nested list", "        - [rule_a]"),
]:
    try:
        got = convert(RULES + "---" + FILTER.format(entries=entries))
    except SigmaError as e:      # rejecting the filter with a Sigma error is an acceptable repair
        print(label, "->", type(e).__name__, e)
        continue
    print(label, "->", got)
    if got[1] != 'rb="v"':       # rule_b is named by no entry and must convert as without the filter
        defects.append(f"{label}: rule_b became {got[1]!r}")

if defects:
    print("DEFECT: rule not named by the filter's rule list is narrowed anyway: " + "; ".join(defects[:2]))
    sys.exit(0)
print("OK")
sys.exit(1)
