"""C06 / d2: a rule whose date/modified is a YAML timestamp (accepted on load, see
tests/test_rule.py::test_sigmarule_datetime) is written with an ISO date-time string that the loader rejects."""
import sys
import yaml
from sigma.rule import SigmaRule
from sigma.correlations import SigmaCorrelationRule
from sigma.filters import SigmaFilter
from sigma.exceptions import SigmaError

RULE = """
title: Test
status: test
date: 2023-01-02 03:04:05
modified: 2024-05-06T07:08:09Z
logsource:
    category: test
detection:
    sel:
        field: value
    condition: sel
"""
CORRELATION = """
title: Corr
date: 2023-01-02T03:04:05
correlation:
    type: event_count
    rules: [r1]
    timespan: 5m
    group-by: [user]
    condition:
        gte: 10
"""
FILTER = """
title: Filter
modified: 2023-01-02 03:04:05
logsource:
    category: test
filter:
    rules: any
    sel:
        user: admin
    condition: not sel
"""

violations = []
for cls, text in ((SigmaRule, RULE), (SigmaCorrelationRule, CORRELATION), (SigmaFilter, FILTER)):
    obj = cls.from_yaml(text)  # loads without error
    d = obj.to_dict()
    print(cls.__name__, "date/modified written as", d.get("date"), "/", d.get("modified"))
    for how, load in (
        ("dict", lambda: cls.from_dict(d)),
        ("yaml", lambda: cls.from_yaml(yaml.safe_dump(d, sort_keys=False))),
    ):
        try:
            reloaded = load()
            if reloaded.to_dict() != d:
                violations.append(f"{cls.__name__}/{how}: reloaded object has another dict form")
        except SigmaError as e:
            violations.append(f"{cls.__name__}/{how}: {type(e).__name__}: {e}")

for v in violations:
    print("  ", v)
if violations:
    print("DEFECT: to_dict() output of a successfully loaded object with a date-time 'date'/'modified' cannot be loaded again: " + violations[0])
    sys.exit(0)
print("round trip ok")
sys.exit(1)
