"""C14 / d1: convert_rule() keeps a stale combined pipeline when the output format changes.

TextQueryTestBackend has an output-format pipeline for format "test" (fieldC -> mappedC) and none for
"default".  The property: a backend ALWAYS runs backend pipeline, user pipeline, output-format pipeline.
"""
import sys
from sigma.backends.test import TextQueryTestBackend
from sigma.collection import SigmaCollection
from sigma.rule import SigmaRule

RULE = """
title: T
logsource: {category: test}
detection:
  sel: {fieldA: a, fieldC: c}
  condition: sel
"""

# reference: what format "test" / "default" mean on a fresh backend
ref_test = TextQueryTestBackend().convert(SigmaCollection.from_yaml(RULE), "test")
ref_default = TextQueryTestBackend().convert(SigmaCollection.from_yaml(RULE), "default")
assert ref_test == ['[ mappedA="a" and mappedC="c" ]'], ref_test
assert ref_default == ['mappedA="a" and fieldC="c"'], ref_default

problems = []

# sequence 1: default first, then a single rule in format "test"
b = TextQueryTestBackend()
b.convert(SigmaCollection.from_yaml(RULE))  # format "default"
got = b.convert_rule(SigmaRule.from_yaml(RULE), "test")
if got != ref_test:
    problems.append(f'after convert(default): convert_rule(rule,"test") -> {got!r}, expected {ref_test!r}')

# sequence 2: "test" first, then "default": the test-format pipeline leaks into the default format
b = TextQueryTestBackend()
b.convert_rule(SigmaRule.from_yaml(RULE), "test")
got = b.convert_rule(SigmaRule.from_yaml(RULE), "default")
if got != ref_default:
    problems.append(f'after convert_rule(test): convert_rule(rule,"default") -> {got!r}, expected {ref_default!r}')

if problems:
    print("DEFECT: convert_rule() runs the output-format pipeline of an EARLIER call's format: " + " | ".join(problems))
    sys.exit(0)
print("OK: convert_rule() always uses the output-format pipeline of the requested format")
sys.exit(1)
