"""C16 witness d2: the opt-in key 'allow_external_sources' is stripped from top-level finalizers
but not from finalizers below a 'nested' finalizer. A nested template finalizer with a vars file
that carries this smuggled key does not fail with the Sigma security error the gate promises but
with a SigmaConfigurationError about an unexpected keyword argument (and it cannot be loaded even
when the caller opts in), while the identical item at top level behaves as specified."""
import copy
import os
import shutil
import sys
import tempfile

for v in ("PYSIGMA_ALLOW_VARS_EXECUTION", "PYSIGMA_ALLOW_EXTERNAL_SOURCES"):
    os.environ.pop(v, None)

from sigma.exceptions import SigmaSecurityError
from sigma.processing.pipeline import ProcessingPipeline

here = os.path.dirname(os.path.abspath(__file__))
tmp = tempfile.mkdtemp(prefix="w_", dir=here)
vars_file = os.path.join(tmp, "helper_vars.py")
with open(vars_file, "w") as f:
    f.write("vars = {'x': 1}\n")

KEYS = {
    "allow_template_vars": True,
    "vars_allowed_paths": ["/"],
    "allow_external_sources": True,
}


def doc(depth, key):
    d = {"type": "template", "template": "{{ queries }}", "vars": vars_file, key: KEYS[key]}
    for _ in range(depth):
        d = {"type": "nested", "finalizers": [d]}
    return {"finalizers": [d]}


def outcome(depth, key, **kw):
    try:
        ProcessingPipeline.from_dict(copy.deepcopy(doc(depth, key)), **kw)
        return "loaded"
    except Exception as e:
        return type(e).__name__ + ": " + str(e)[:90]


bad = []
for depth in range(4):
    for key in KEYS:
        closed = outcome(depth, key)  # default arguments -> must be the security error
        opened = outcome(depth, key, allow_template_vars=True)  # caller opt-in -> key must not matter
        ok = closed.startswith(SigmaSecurityError.__name__) and opened == "loaded"
        print(f"depth={depth} key={key:23s} default: {closed!s:60.60s} | opt-in: {opened[:40]}")
        if not ok:
            bad.append((depth, key, closed))
shutil.rmtree(tmp, ignore_errors=True)

if bad:
    depth, key, closed = bad[0]
    print(
        f"DEFECT: template finalizer with vars and smuggled key '{key}' at nesting depth {depth} "
        f"fails with '{closed.split(':')[0]}' instead of SigmaSecurityError "
        f"({len(bad)} of 12 level/key combinations deviate; top level is correct)"
    )
    sys.exit(0)
print("OK: every level fails with SigmaSecurityError by default and loads with caller opt-in")
sys.exit(1)
