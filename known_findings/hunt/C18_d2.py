"""
C18 / d2: an IPv6 single-address network with a zone (scope) id is accepted but cannot be expanded.

SigmaCIDRExpression("fe80::1%eth0/128") passes validation (ipaddress accepts zone ids). expand() -
and therefore the conversion for every backend without native CIDR support - dies with an
IndexError instead of either rejecting the value with a Sigma error or producing a pattern that
matches the address.
"""
import ipaddress
import sys

from sigma.backends.test import TextQueryTestBackend
from sigma.collection import SigmaCollection
from sigma.exceptions import SigmaError
from sigma.processing.pipeline import ProcessingPipeline
from sigma.types import SigmaCIDRExpression


class NoNativeCIDRBackend(TextQueryTestBackend):
    cidr_expression = None


def matches(pattern: str, text: str) -> bool:
    return text.startswith(pattern[:-1]) if pattern.endswith("*") else text == pattern


defects = []
for cidr in ("fe80::1%eth0/128", "fe80::1%eth0", "1:2:3:4:5:6:7:8%1/128"):
    # 1. the type itself
    try:
        patterns = SigmaCIDRExpression(cidr).expand()
    except SigmaError as e:
        print(f"{cidr}: rejected with {type(e).__name__} - fine")
        continue
    except Exception as e:
        defects.append(f"SigmaCIDRExpression({cidr!r}) is accepted but expand() raises {e!r}")
        patterns = None
    if patterns is not None:
        address = ipaddress.ip_network(cidr).network_address
        plain = str(ipaddress.IPv6Address(int(address)))  # canonical text without zone
        if not any(matches(p, plain) or matches(p, str(address)) for p in patterns):
            defects.append(f"{cidr}: patterns {patterns} match neither {plain} nor {address}")

    # 2. the same through a rule and a backend without native CIDR support
    rule = f"""
title: zone id
logsource:
    category: test
detection:
    sel:
        ip|cidr: '{cidr}'
    condition: sel
"""
    try:
        print(cidr, "->", NoNativeCIDRBackend(ProcessingPipeline()).convert(SigmaCollection.from_yaml(rule)))
    except SigmaError as e:
        print(f"{cidr}: conversion rejected with {type(e).__name__} - fine")
    except Exception as e:
        defects.append(f"conversion of ip|cidr: {cidr} raises {type(e).__name__}: {e}")

if defects:
    print("DEFECT: " + defects[0] + f" ({len(defects)} observations)")
    for d in defects[1:]:
        print("   also:", d)
    sys.exit(0)
print("zone ids are either rejected or expanded into matching patterns")
sys.exit(1)
