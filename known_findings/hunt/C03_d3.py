"""C03 d3: integers above 2**53 lose precision (silently become a different float) when stored on
the detection item, plain or through lt/lte/gt/gte."""
import sys
from sigma.rule import SigmaDetectionItem
from sigma.exceptions import SigmaError
from sigma.collection import SigmaCollection
from sigma.backends.test import TextQueryTestBackend

problems = []
for n in (2**53 + 1, 9223372036854775807, -(2**63) + 1, 18446744073709551615, 132223104000000001):
    for key in ("f", "f|gt", "f|lte"):
        try:
            val = SigmaDetectionItem.from_mapping(key, n).value[0]
        except SigmaError:
            continue  # refusing the number would at least not change the rule
        num = val if key == "f" else val.number  # SigmaCompareExpression.number is the SigmaNumber
        if not (type(num.number) is int and num.number == n and str(num) == str(n)):
            problems.append(f"{key}: {n} stored as {num.number!r}")

# control: ordinary ints and floats are kept
assert SigmaDetectionItem.from_mapping("f|gt", 4624).value[0].number.number == 4624
assert SigmaDetectionItem.from_mapping("f|gt", 1.5).value[0].number.number == 1.5

query = TextQueryTestBackend().convert(
    SigmaCollection.from_yaml(
        """
title: t
logsource:
    category: test
detection:
    sel:
        FileTime|gt: 132223104000000001
    condition: sel
"""
    )
)[0]
if "132223104000000001" not in query:
    problems.append(f"query for 'FileTime|gt: 132223104000000001' is {query!r}")

if problems:
    print(f"DEFECT: large integers change their content when stored as SigmaNumber ({len(problems)} cases), e.g. {problems[0]}; {problems[-1]}")
    sys.exit(0)
print("OK: integer values keep their exact content")
sys.exit(1)
