"""
C10 / d5: a non-integer threshold (or percentile) of a correlation condition is silently truncated.
`value_avg ... gt: 0.5` becomes `value_avg > 0`, `lt: 0.5` becomes `< 0` (never true for
non-negative values), `percentile: 99.9` becomes 99. The rule is accepted without any error.
"""
import itertools
import sys

from sigma.backends.test import TextQueryTestBackend
from sigma.collection import SigmaCollection
from sigma.exceptions import SigmaError

RULE = """
title: A
name: rule_a
logsource: {product: windows}
detection:
  sel: {action: request}
  condition: sel
---
"""


def convert(ctype, op, count, percentile=None):
    pct = f", percentile: {percentile}" if percentile is not None else ""
    corr = f"""
title: C
name: corr
correlation:
  type: {ctype}
  rules: [rule_a]
  timespan: 5m
  group-by: [user]
  condition: {{{op}: {count}, field: score{pct}}}
"""
    return TextQueryTestBackend().convert(SigmaCollection.from_yaml(RULE + corr))[0]


sym = {"lt": "<", "lte": "<=", "gt": ">", "gte": ">=", "eq": "==", "neq": "!="}
bad = []
rejected = 0
for ctype, op, count in itertools.product(
    ["value_avg", "value_sum", "value_median", "value_percentile"], sym, ["0.5", "2.75", "1e-1"]
):
    pct = 99.9 if ctype == "value_percentile" else None
    try:
        q = convert(ctype, op, count, pct)
    except SigmaError:
        rejected += 1  # refusing a value that can't be represented is fine
        continue
    cond_line = q.splitlines()[-1]
    given = float(count)
    rendered = cond_line.rsplit(" ", 1)[-1]
    try:
        same = float(rendered) == given
    except ValueError:
        same = False
    if not same:
        bad.append(f"{ctype} {op}: {count} -> {cond_line!r}")
    if pct is not None and "99.9" not in q:
        bad.append(f"{ctype} percentile: 99.9 -> {q.splitlines()[1]!r}")

for b in bad[:12]:
    print(b)
if bad:
    print(
        f"DEFECT: {len(bad)} conditions rendered with a truncated count/percentile "
        "(e.g. value_avg gt: 0.5 -> '> 0'), no error raised"
    )
    sys.exit(0)
print(f"OK: thresholds rendered as given ({rejected} rejected with a Sigma error)")
sys.exit(1)
