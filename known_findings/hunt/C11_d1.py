"""C11 witness: a rule selector whose pattern starts with '_' captures the filter's detections."""
import sys
from sigma.collection import SigmaCollection
from sigma.backends.test import TextQueryTestBackend

RULE = """
title: Rule with underscore-named detections
name: r1
logsource:
    product: windows
detection:
    _a:
        ra: v
    _b:
        rb: v
    condition: 1 of _*
"""
FILTER = """
title: Filter
logsource:
    product: windows
filter:
    rules: any
    flt:
        ff: v
    condition: flt
"""

def convert(y):
    return TextQueryTestBackend().convert(SigmaCollection.from_yaml(y))

plain = convert(RULE)
assert plain == ['ra="v" or rb="v"'], plain
filtered = convert(RULE + "---" + FILTER)
print("without filter:", plain)
print("with filter   :", filtered)

# Reference: (ra or rb) and ff. Evaluate the produced query on the event ra=rb=False, ff=True:
# the rule alone does not match it, so rule AND filter must not match it either.
q = filtered[0]
env = {"ra": False, "rb": False, "ff": True}
import re
expr = re.sub(r'(\w+)="v"', lambda m: str(env[m.group(1)]), q)
matches = eval(expr)
if matches:
    print("DEFECT: rule selector '1 of _*' captured the filter's detection: %s (expected (ra or rb) and ff)" % q)
    sys.exit(0)
print("OK")
sys.exit(1)
