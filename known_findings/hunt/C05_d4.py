"""C05 / d4: the fieldref modifier keeps the escaping backslashes of the plain form in the field name.

Run: PYTHONPATH=/repo /venv/bin/python witness.py
exit 0 + "DEFECT: ..."  -> property violated
exit 1                   -> library behaves as the property says
"""
import sys
from sigma.backends.test import TextQueryTestBackend
from sigma.rule import SigmaRule

backend = TextQueryTestBackend()


def rule(detection_item):
    return SigmaRule.from_dict(
        {
            "title": "t",
            "logsource": {"category": "test"},
            "detection": {"sel": detection_item, "condition": "sel"},
        }
    )


problems = []
for name, escaped in [("bytes*2", r"bytes\*2"), ("is_admin?", r"is_admin\?")]:
    # how the backend renders this field name when it is the key of a detection item
    as_key = backend.convert_rule(rule({name: 1}))[0]  # e.g. 'bytes*2'=1
    rendered_name = as_key[: -len("=1")]
    # a bare * or ? in a field reference is refused as wildcard, so the rule has to escape it
    r = rule({"other|fieldref": escaped})
    ref = r.detection.detections["sel"].detection_items[0].value[0]
    query = backend.convert_rule(r)[0]
    expected = f"other=fieldref({rendered_name})"
    if ref.field != name or query != expected:
        problems.append(
            f"fieldref value {escaped!r} names field {name!r}; got SigmaFieldReference.field="
            f"{ref.field!r} and query {query!r}, expected {expected!r}"
        )

if problems:
    print("DEFECT: field reference to a field with * or ? in its name is rendered with the "
          "plain-form backslash: " + problems[0])
    for p in problems[1:]:
        print("  also:", p)
    sys.exit(0)
print("OK")
sys.exit(1)
