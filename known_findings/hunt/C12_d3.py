"""
A nested pipeline (`type: nest`) is not equivalent to the same items written flat: the nested
items neither see the variables (`vars`) of the pipeline they are written in nor the processing
state set by items that ran before the `nest` item.

Run: PYTHONPATH=/repo /venv/bin/python witness.py
exit 0 + "DEFECT: ..." -> property violated; exit 1 -> library behaves as the property demands.
"""
import sys
from sigma.collection import SigmaCollection
from sigma.processing.pipeline import ProcessingPipeline
from sigma.backends.test import TextQueryTestBackend

RULE = """
title: t
status: test
logsource:
    category: test
detection:
    sel:
        {item}
    condition: sel
"""


def convert(item: str, pipeline: str | None = None):
    p = ProcessingPipeline.from_yaml(pipeline) if pipeline else None
    try:
        return TextQueryTestBackend(p).convert(SigmaCollection.from_yaml(RULE.format(item=item)))
    except Exception as e:  # noqa
        return f"{type(e).__name__}: {e}"


violations = []

# 1. variables -------------------------------------------------------------------------------
FLAT_VARS = """
name: p
priority: 10
vars:
  var:
    - a
    - b
transformations:
  - type: value_placeholders
"""
NESTED_VARS = """
name: p
priority: 10
vars:
  var:
    - a
    - b
transformations:
  - type: nest
    items:
      - type: value_placeholders
"""
item = "f|expand: 'x%var%'"
flat = convert(item, FLAT_VARS)
nested = convert(item, NESTED_VARS)
rewritten = convert("f:\n            - xa\n            - xb")
print(f"vars   flat     : {flat}\n       nested   : {nested}\n       rewritten: {rewritten}")
assert flat == rewritten, "flat pipeline is expected to equal the hand rewrite"
if nested != rewritten:
    violations.append(f"value_placeholders inside nest cannot see pipeline vars ({nested})")

# 2. state -----------------------------------------------------------------------------------
FLAT_STATE = """
name: p
priority: 10
transformations:
  - type: set_state
    key: k
    val: v
  - type: field_name_mapping
    mapping:
      f: g
    rule_conditions:
      - type: processing_state
        key: k
        val: v
"""
NESTED_STATE = """
name: p
priority: 10
transformations:
  - type: set_state
    key: k
    val: v
  - type: nest
    items:
      - type: field_name_mapping
        mapping:
          f: g
        rule_conditions:
          - type: processing_state
            key: k
            val: v
"""
item = "f: x"
flat = convert(item, FLAT_STATE)
nested = convert(item, NESTED_STATE)
rewritten = convert("g: x")
print(f"state  flat     : {flat}\n       nested   : {nested}\n       rewritten: {rewritten}")
assert flat == rewritten, "flat pipeline is expected to equal the hand rewrite"
if nested != rewritten:
    violations.append(f"state set before the nest item is invisible inside it ({nested})")

if violations:
    print("DEFECT: nest is not equivalent to its flat item list: " + "; ".join(violations))
    sys.exit(0)
sys.exit(1)
