"""C02 / d4: keyword-like detection names ('all', 'any', 'of', '1', 'them') are whole words in a
rule condition but not in a filter condition.

In a rule, `sel and not all` over detections {sel, all} parses fine (the name is read as a whole
word).  When the very same detection/condition pair sits in a SigmaFilter, apply_on_rule renames
the detection to `_filt_<rnd>_all` but leaves the token `all` in the condition text untouched
(and turns an identifier `them` into the pattern `_filt_<rnd>_*`), so the rewritten condition
no longer spells the filter's boolean function: it is an undefined-detection / syntax error, or -
if the rule happens to own a detection of that name - silently refers to the RULE's detection.
"""
import sys

from sigma.backends.test import TextQueryTestBackend
from sigma.collection import SigmaCollection
from sigma.exceptions import SigmaError

RULE = """
title: rule
logsource: {category: test}
detection:
  sel: {f: v}
  %s
  condition: %s
"""
FILTER = """
title: filter
logsource: {category: test}
filter:
  rules: any
  %s: {g: x}
  condition: not %s
"""


def convert(*docs):
    return TextQueryTestBackend().convert(SigmaCollection.from_yaml("---".join(docs)))


problems = []
# control: an ordinary filter detection name works
control = convert(RULE % ("", "sel"), FILTER % ("ex", "ex"))
assert control == ['f="v" and not g="x"'], control

for name in ("all", "any", "of", "them"):
    # the name is fine as a rule-level identifier ...
    q = convert(RULE % (f"{name}: {{g: x}}", f"sel and not {name}"))
    assert q == ['f="v" and not g="x"'], q
    # ... but not as a filter-level identifier
    try:
        q = convert(RULE % ("", "sel"), FILTER % (name, name))
        if q != control:
            problems.append(f"filter detection {name!r}: query {q} instead of {control}")
    except SigmaError as e:
        problems.append(f"filter detection {name!r}: {type(e).__name__}({str(e)[:60]})")

# silent variant: rule and filter both own a detection called 'all'
q = None
try:
    q = convert(RULE % ("all: {h: y}", "sel and all"), FILTER % ("all", "all"))
except SigmaError as e:
    problems.append(f"rule+filter both naming 'all': {type(e).__name__}")
if q is not None and q != ['f="v" and h="y" and not g="x"']:
    problems.append(f"rule+filter both naming 'all': filter condition bound to the rule's detection: {q}")

if problems:
    print("DEFECT: filter condition identifiers equal to selector keywords are not read as names: "
          + " | ".join(problems))
    sys.exit(0)
print("OK")
sys.exit(1)
