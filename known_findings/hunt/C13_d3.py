"""C13 / d3: a negated field name condition is evaluated on the whole detection item (field OR referenced
fields) before the individual field names are looked at, so a referenced field that satisfies the negated
condition is skipped when the item's own field does not."""
import sys
import warnings

warnings.simplefilter("ignore")

from sigma.collection import SigmaCollection
from sigma.processing.pipeline import ProcessingPipeline
from sigma.backends.test import TextQueryTestBackend

RULE = """
title: Field reference
status: test
logsource:
    category: test
detection:
    sel:
        keep|fieldref: other
    condition: sel
"""

MAPPING = {"keep": "KEEP", "other": "OTHER"}

# Three spellings of "every field name except 'keep'":
CONFIGS = {
    "exclude_fields [keep]": {
        "field_name_conditions": [{"type": "exclude_fields", "fields": ["keep"]}],
    },
    "include_fields [keep] + field_name_cond_not": {
        "field_name_conditions": [{"type": "include_fields", "fields": ["keep"]}],
        "field_name_cond_not": True,
    },
    "field_name_cond_expr 'not c'": {
        "field_name_conditions": {"c": {"type": "include_fields", "fields": ["keep"]}},
        "field_name_cond_expr": "not c",
    },
}

# Field name 'keep'  : condition false -> not mapped.
# Field name 'other' : condition true  -> mapped to OTHER.
EXPECTED = "keep=fieldref(OTHER)"
# Mirror case: the item's own field satisfies the condition, the referenced one does not.
MIRROR_RULE = RULE.replace("keep|fieldref: other", "other|fieldref: keep")
MIRROR_EXPECTED = "OTHER=fieldref(keep)"

results = {}
for name, cond in CONFIGS.items():
    item = {"id": "map", "type": "field_name_mapping", "mapping": MAPPING}
    item.update(cond)
    pipeline = ProcessingPipeline.from_dict({"transformations": [item]})
    results[name] = TextQueryTestBackend(pipeline).convert(SigmaCollection.from_yaml(RULE))[0]
    mirror = TextQueryTestBackend(pipeline).convert(SigmaCollection.from_yaml(MIRROR_RULE))[0]
    print(f"{name:48s} -> {results[name]}   | mirror rule -> {mirror}")
    if mirror != MIRROR_EXPECTED and results[name] == EXPECTED:
        results[name] = "mirror rule: " + mirror

wrong = {k: v for k, v in results.items() if v != EXPECTED}
if wrong:
    k, v = next(iter(wrong.items()))
    print(
        f"DEFECT: with '{k}' the referenced field 'other' satisfies the field name condition but is not mapped: "
        f"query {v!r}, expected {EXPECTED!r} ({len(wrong)} of {len(results)} equivalent configurations wrong)"
    )
    sys.exit(0)
print("OK: all equivalent configurations map exactly the field names for which the condition holds")
sys.exit(1)
