"""C05 / d3: replace_string with skip_special + interpret_special re-parses text it did not replace.

Run: PYTHONPATH=/repo /venv/bin/python witness.py
exit 0 + "DEFECT: ..."  -> property violated
exit 1                   -> library behaves as the property says
"""
import sys
from sigma.backends.test import TextQueryTestBackend
from sigma.processing.pipeline import ProcessingPipeline
from sigma.rule import SigmaRule


def pipeline(regex, replacement):
    return ProcessingPipeline.from_dict(
        {
            "name": "p",
            "priority": 10,
            "transformations": [
                {
                    "id": "r",
                    "type": "replace_string",
                    "regex": regex,
                    "replacement": replacement,
                    "skip_special": True,
                    "interpret_special": True,
                }
            ],
        }
    )


def convert(value, pl=None):
    rule = SigmaRule.from_dict(
        {
            "title": "t",
            "logsource": {"category": "test"},
            "detection": {"sel": {"fld": value}, "condition": "sel"},
        }
    )
    return TextQueryTestBackend(pl).convert_rule(rule)[0]


problems = []

# A. the regular expression matches nothing: the value must come out unchanged
for value in [
    r"50\* off",  # literal star
    r"what\?",  # literal question mark
    "\\\\\\\\srv\\share\\x.exe",  # Sigma source \\\\srv\share\x.exe = UNC path with two leading backslashes
]:
    plain = convert(value)
    noop = convert(value, pipeline("THIS-DOES-NOT-OCCUR", "y"))
    if plain != noop:
        problems.append(
            f"value {value!r}: without pipeline {plain!r}, with a replace_string that matches "
            f"nothing {noop!r}"
        )

# B. the regular expression matches elsewhere: characters outside the match must keep their meaning
value = r"50\* off"
got = convert(value, pipeline("off", "OFF"))
want = convert(r"50\* OFF")
if got != want:
    problems.append(f"value {value!r}, off->OFF: {got!r}, expected {want!r}")

# control: a wildcard in the replacement is interpreted (the documented purpose of the option)
ctrl = convert("abc", pipeline("b", "*"))
assert ctrl == convert("a*c"), ctrl

if problems:
    print("DEFECT: ReplaceStringTransformation(skip_special, interpret_special) changes "
          "characters it does not replace: " + problems[0])
    for p in problems[1:]:
        print("  also:", p)
    sys.exit(0)
print("OK")
sys.exit(1)
