"""C19 / d4: an exclusion table that names the same rule id in two (equivalent) spellings silently
loses one of the two exclusions: the excluded validator still reports the excluded rule."""
import sys

from sigma.rule import SigmaRule
from sigma.validation import SigmaValidator
from sigma.validators.core import validators

RULE_ID = "9a6b2a1e-7f0c-4e5f-8d3a-1b2c3d4e5f60"
RULE = f"""
title: Test
id: {RULE_ID}
logsource:
    category: test
detection:
    sel:
        field: "1"
    unused:
        other: value
    condition: sel
"""
ACTIVE = ["dangling_detection", "number_as_string"]

CONFIG_ONE_KEY = f"""
validators: [dangling_detection, number_as_string]
exclusions:
    {RULE_ID}:
        - dangling_detection
        - number_as_string
"""
# The same exclusions, one line per validator; the second line spells the id in upper case
# (UUIDs are case insensitive, the loader converts both keys with uuid.UUID()).
CONFIG_TWO_KEYS = f"""
validators: [dangling_detection, number_as_string]
exclusions:
    {RULE_ID}: dangling_detection
    {RULE_ID.upper()}: number_as_string
"""


def run(config):
    rule = SigmaRule.from_yaml(RULE)
    validator = SigmaValidator.from_yaml(config, validators)
    return sorted(type(i).__name__ for i in validator.validate_rules([rule]))


no_exclusion = run("validators: [dangling_detection, number_as_string]")
one_key = run(CONFIG_ONE_KEY)
two_keys = run(CONFIG_TWO_KEYS)
print("without exclusions          :", no_exclusion)
print("both validators under 1 key :", one_key)
print("one key per validator       :", two_keys)

if no_exclusion != ["DanglingDetectionIssue", "NumberAsStringIssue"] or one_key != []:
    print("unexpected baseline behaviour, witness not applicable")
    sys.exit(1)

if two_keys != []:
    print(
        f"DEFECT: rule {RULE_ID} is excluded from dangling_detection and number_as_string, "
        f"but {two_keys} is still reported (the first exclusion entry was overwritten by the second)"
    )
    sys.exit(0)

print("OK: both exclusions are honoured")
sys.exit(1)
