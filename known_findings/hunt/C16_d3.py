"""C16 witness d3 (interpretation-dependent, see notes.md): the file a file_placeholders item is
refused to read (no opt-in) is read anyway, with default arguments, when the same document names it
through the 'path'/'template' keys of a template post-processing item or template finalizer; its
content ends up in the conversion output."""
import os
import shutil
import sys
import tempfile

for v in ("PYSIGMA_ALLOW_VARS_EXECUTION", "PYSIGMA_ALLOW_EXTERNAL_SOURCES"):
    os.environ.pop(v, None)

here = os.path.dirname(os.path.abspath(__file__))
tmp = tempfile.mkdtemp(prefix="w_", dir=here)
secret = os.path.join(tmp, "source_values.txt")
with open(secret, "w") as f:
    f.write("TOP-SECRET-VALUE-1\nTOP-SECRET-VALUE-2\n")

opened = []


def hook(ev, args):
    if ev == "open" and isinstance(args[0], str) and os.path.realpath(args[0]) == os.path.realpath(secret):
        opened.append(args[0])


sys.addaudithook(hook)

from sigma.backends.test import TextQueryTestBackend
from sigma.collection import SigmaCollection
from sigma.exceptions import SigmaSecurityError
from sigma.processing.pipeline import ProcessingPipeline

RULE_PLAIN = """
title: t
logsource: {category: test}
detection:
  sel: {a: b}
  condition: sel
"""
RULE_PH = RULE_PLAIN.replace("{a: b}", "{'a|expand': '%ph%'}")

DOC = f"""
transformations:
- type: file_placeholders
  path: {secret}
postprocessing:
- type: template
  path: {tmp}
  template: source_values.txt
finalizers:
- type: template
  path: {tmp}
  template: source_values.txt
"""

gate_ok = False
leaked = ""
try:
    pipeline = ProcessingPipeline.from_yaml(DOC)  # default arguments
    opened_at_load = list(opened)
    try:
        TextQueryTestBackend(pipeline).convert(SigmaCollection.from_yaml(RULE_PH))
    except SigmaSecurityError:
        gate_ok = True  # the placeholder item itself is gated as promised
    leaked = str(TextQueryTestBackend(pipeline).convert(SigmaCollection.from_yaml(RULE_PLAIN)))
except Exception as e:  # a repaired library may refuse to load the document
    opened_at_load = list(opened)
    print("load/convert refused:", type(e).__name__, e)

shutil.rmtree(tmp, ignore_errors=True)
print("file_placeholders item gated by SigmaSecurityError:", gate_ok)
print("open() events on the source file:", opened)
print("conversion output:", leaked[:120])
if opened or "TOP-SECRET-VALUE" in leaked:
    print(
        "DEFECT: with default arguments the placeholder source file was opened "
        f"{len(opened)}x (already during from_yaml: {len(opened_at_load)}x) via template path/template "
        "keys and its content was emitted as conversion output"
    )
    sys.exit(0)
print("OK: source file never opened without opt-in")
sys.exit(1)
