"""C06 / d5: after a field name mapping that maps two fields to the same name, the two detection
items get the same key in the plain form. SigmaDetection.to_plain() merges them into one
'<key>|all' item. For 'neq' items this changes the meaning: (not f=x) and (not f=y) is written as
f|neq|all: [x, y], which means not (f=x and f=y). No Sigma error is raised."""
import sys
import yaml
from sigma.rule import SigmaRule
from sigma.collection import SigmaCollection
from sigma.backends.test import TextQueryTestBackend
from sigma.processing.pipeline import ProcessingPipeline
from sigma.exceptions import SigmaError

RULE = """
title: Test
logsource:
    category: process_creation
detection:
    sel:
        CommandLine|contains: whoami
        Image|neq: 'C:\\Windows\\System32\\whoami.exe'
        NewProcessName|neq: 'C:\\Windows\\SysWOW64\\whoami.exe'
    condition: sel
"""


def pipeline():
    return ProcessingPipeline.from_dict(
        {
            "name": "ecs",
            "priority": 10,
            "transformations": [
                {
                    "id": "map",
                    "type": "field_name_mapping",
                    "mapping": {
                        "Image": "process.executable",
                        "NewProcessName": "process.executable",
                    },
                }
            ],
        }
    )


# meaning of the transformed rule
expected = TextQueryTestBackend(processing_pipeline=pipeline()).convert(SigmaCollection.from_yaml(RULE))

rule = SigmaRule.from_yaml(RULE)
pipeline().apply(rule)
try:
    d = rule.to_dict()
except SigmaError as e:
    print(f"to_dict() refused with {type(e).__name__}: acceptable")
    sys.exit(1)

got_dict = TextQueryTestBackend().convert(SigmaCollection([SigmaRule.from_dict(d)]))
got_yaml = TextQueryTestBackend().convert(
    SigmaCollection([SigmaRule.from_yaml(yaml.safe_dump(d, sort_keys=False))])
)
print("written detection:", d["detection"]["sel"])
print("transformed rule :", expected)
print("reloaded rule    :", got_dict)
print("via YAML         :", got_yaml)
if expected != got_dict or expected != got_yaml:
    print(
        "DEFECT: to_dict() merges two 'neq' items with the same key into one 'neq|all' item; "
        "'not A and not B' becomes 'not (A and B)'"
    )
    sys.exit(0)
print("serialisation faithful")
sys.exit(1)
