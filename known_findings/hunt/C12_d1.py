"""
Value transformations (case, replace_string, value_placeholders, ... everything built on ValueTransformation) silently skip
every value that a modifier such as `windash` expanded into a SigmaExpansion.

Run: PYTHONPATH=/repo /venv/bin/python witness.py
exit 0 + "DEFECT: ..." -> property violated; exit 1 -> library behaves as the property demands.
"""
import sys
from sigma.collection import SigmaCollection
from sigma.processing.pipeline import ProcessingPipeline
from sigma.backends.test import TextQueryTestBackend

RULE = """
title: t
status: test
logsource:
    category: process_creation
    product: windows
detection:
    sel:
        {item}
    condition: sel
"""


def convert(item: str, pipeline: str | None = None):
    p = ProcessingPipeline.from_yaml(pipeline) if pipeline else None
    try:
        return TextQueryTestBackend(p).convert(SigmaCollection.from_yaml(RULE.format(item=item)))
    except Exception as e:  # noqa
        return f"{type(e).__name__}: {e}"


def norm(result):
    """All queries of this witness are flat disjunctions: compare them as sets of disjuncts."""
    if isinstance(result, str):
        return result
    return [frozenset(q.replace("(", "").replace(")", "").split(" or ")) for q in result]


def pipeline(body: str) -> str:
    return "name: p\npriority: 10\n" + body


CASES = [
    (
        "case upper",
        "CommandLine|windash|contains: '-Foo'",
        pipeline("transformations:\n  - type: case\n    method: upper\n"),
        "CommandLine|windash|contains: '-FOO'",
    ),
    (
        "replace_string Foo->bar",
        "CommandLine|windash|contains: '-Foo'",
        pipeline("transformations:\n  - type: replace_string\n    regex: Foo\n    replacement: bar\n"),
        "CommandLine|windash|contains: '-bar'",
    ),
    (
        "value_placeholders var=[a,b]",
        # (the hunt's original value '-%var%' additionally depends on windash seeing the text behind the dash, which is a
        #  placeholder when the modifier runs; that is another question than the skipped expansion and not part of this witness)
        "CommandLine|expand|windash: '-x %var%'",
        pipeline("vars:\n  var:\n    - a\n    - b\ntransformations:\n  - type: value_placeholders\n"),
        "CommandLine|windash:\n            - '-x a'\n            - '-x b'",
    ),
]

# sanity: the same transformations do work on the same value without the expanding modifier
sanity = convert("CommandLine|contains: '-Foo'", CASES[0][2])
assert sanity == ['CommandLine contains "-FOO"'], sanity

violations = []
for name, item, pipe, rewritten in CASES:
    got = convert(item, pipe)
    want = convert(rewritten)
    print(f"[{name}]\n   pipeline : {got}\n   rewritten: {want}")
    if norm(got) != norm(want):
        violations.append(name)

if violations:
    print(
        "DEFECT: value transformations leave values inside a SigmaExpansion (windash) untouched: "
        + ", ".join(violations)
    )
    sys.exit(0)
sys.exit(1)
