"""
C10 / d1: a correlation rule that is referenced by another correlation rule is embedded
finalised and post-processed although the backend does NOT opt into sub-query finalisation
(finalize_correlation_subqueries = False), while a plain rule referenced next to it is embedded
un-finalised as promised.
"""
import sys

from sigma.backends.test import TextQueryTestBackend
from sigma.collection import SigmaCollection
from sigma.processing.pipeline import ProcessingPipeline

RULES = """
title: A
name: rule_a
logsource: {product: windows}
detection:
  sel: {user: x}
  condition: sel
---
title: B
name: rule_b
logsource: {product: windows}
detection:
  sel: {user: y}
  condition: sel
---
title: Inner
name: inner
correlation:
  type: event_count
  rules: [rule_a]
  timespan: 5m
  group-by: [user]
  condition: {gte: 2}
---
title: Outer
name: outer
correlation:
  type: temporal
  rules: [inner, rule_b]
  timespan: 1h
  group-by: [user]
  condition: {gte: 2}
"""

PIPELINE = """
name: embed
priority: 10
postprocessing:
  - type: embed
    prefix: "PRE<"
    suffix: ">POST"
"""

assert TextQueryTestBackend.finalize_correlation_subqueries is False  # backend does not opt in

backend = TextQueryTestBackend(ProcessingPipeline.from_yaml(PIPELINE))
queries = backend.convert(SigmaCollection.from_yaml(RULES))
assert len(queries) == 1, queries  # only the outer rule is emitted (generate is false everywhere)
outer = queries[0]
print(outer)
print("-----")

# The outer query itself is finalised exactly once.
if not (outer.startswith("PRE<") and outer.endswith(">POST")):
    print("unexpected: outer query not post-processed at all")
    sys.exit(1)
body = outer[len("PRE<") : -len(">POST")]

plain_sub = 'subsearch { user="y" | set event_type="rule_b" }'
plain_ok = plain_sub in body  # plain referenced rule: embedded without post-processing
inner_expected = (
    'subsearch { user="x"\n'
    "| aggregate window=5min count() as event_count by user\n"
    '| where event_count >= 2 | set event_type="inner" }'
)
inner_ok = inner_expected in body

if plain_ok and not inner_ok and "PRE<" in body:
    print(
        "DEFECT: nested correlation rule 'inner' is embedded finalised/post-processed (PRE<...>POST) "
        "although finalize_correlation_subqueries is False; plain rule 'rule_b' next to it is not"
    )
    sys.exit(0)
if plain_ok and inner_ok:
    print("OK: no referenced query was post-processed")
    sys.exit(1)
print("unexpected output shape")
sys.exit(1)
