"""C05 / d2: a backend without escape character silently emits characters it cannot escape.

Run: PYTHONPATH=/repo /venv/bin/python witness.py
exit 0 + "DEFECT: ..."  -> property violated
exit 1                   -> library behaves as the property says (error, or a literal that
                            decodes to the source characters)
"""
import sys
from sigma.backends.test import TextQueryTestBackend
from sigma.exceptions import SigmaError
from sigma.rule import SigmaRule
from sigma.types import SigmaString


class NoEscapeBackend(TextQueryTestBackend):
    # target language has quoted strings and * ? wildcards but no escape mechanism;
    # escape_char = None is also the default of TextQueryBackend
    escape_char = None
    add_escaped = ""
    filter_chars = ""


def rule(value):
    return SigmaRule.from_dict(
        {
            "title": "t",
            "logsource": {"category": "test"},
            "detection": {"sel": {"user": value}, "condition": "sel"},
        }
    )


problems = []

# 1. the string quote inside the value terminates the literal
value = 'x" or admin="'
try:
    q = NoEscapeBackend().convert_rule(rule(value))[0]
except SigmaError as e:
    q = None
    print("quote case refused:", type(e).__name__, e)
if q is not None:
    # decode with the target rules: literal starts after user=" and ends at the next quote
    assert q.startswith('user="'), q
    literal_end = q.index('"', len('user="'))
    decoded = q[len('user="') : literal_end]
    rest = q[literal_end + 1 :]
    if decoded != value or rest != "":
        problems.append(
            f"value {value!r} -> query {q!r}: literal decodes to {decoded!r}, "
            f"remaining query text {rest!r}"
        )

# 2. an escaped (literal) star is emitted as the wildcard token
value2 = r"100\*"
try:
    q2 = NoEscapeBackend().convert_rule(rule(value2))[0]
    q2_wild = NoEscapeBackend().convert_rule(rule("100*"))[0]
except SigmaError as e:
    q2 = None
    print("literal star case refused:", type(e).__name__, e)
if q2 is not None and '"100*"' in q2:
    problems.append(
        f"value {value2!r} (literal star) -> {q2!r}; the star is the target's wildcard token "
        f"(the wildcard value '100*' gives {q2_wild!r})"
    )

# 3. same thing on the lowest level
try:
    c = SigmaString('a"b').convert(escape_char=None, add_escaped='"')
    if c == 'a"b':
        problems.append("SigmaString('a\"b').convert(escape_char=None, add_escaped='\"') "
                        "returns the character unescaped instead of refusing")
except SigmaError:
    pass

if problems:
    print("DEFECT: escape_char=None: characters that must be escaped are passed through "
          "silently: " + problems[0])
    for p in problems[1:]:
        print("  also:", p)
    sys.exit(0)
print("OK")
sys.exit(1)
