"""C20 / d3: SigmaConversionError.__str__ appends repr() of the rule; that repr contains the set
applied_processing_items, so the error record of a correlation rule that can't be converted has a
different text for different PYTHONHASHSEED values."""
import os
import re
import subprocess
import sys

PIPELINE = """
name: test pipeline
priority: 10
transformations:
  - id: map_user
    type: field_name_mapping
    mapping:
      user: user.name
  - id: ecs_prefix
    type: field_name_prefix
    prefix: "ecs."
  - id: keyword_suffix
    type: field_name_suffix
    suffix: ".keyword"
  - id: set_index
    type: set_state
    key: index
    val: main
"""

RULES = """
title: Base rule
name: base_rule
logsource:
    category: test
detection:
    sel:
        user: admin
    condition: sel
---
title: Percentile correlation without percentile
name: corr
correlation:
    type: value_percentile
    rules:
        - base_rule
    group-by:
        - user
    timespan: 5m
    condition:
        field: duration
        gte: 10
"""


def child() -> None:
    from sigma.backends.test import TextQueryTestBackend
    from sigma.collection import SigmaCollection
    from sigma.exceptions import SigmaError
    from sigma.processing.pipeline import ProcessingPipeline

    backend = TextQueryTestBackend(ProcessingPipeline.from_yaml(PIPELINE), collect_errors=True)
    try:
        queries = backend.convert(SigmaCollection.from_yaml(RULES))
        print("QUERIES", queries)
    except SigmaError as e:
        print("RAISED", type(e).__name__, str(e))
    for _, e in backend.errors:
        print("BACKEND-ERROR", type(e).__name__, str(e))


def main() -> int:
    outputs = {}
    for hashseed in ("0", "1", "2", "3", "4", "5"):
        env = dict(os.environ, PYTHONHASHSEED=hashseed)
        p = subprocess.run([sys.executable, __file__, "child"], env=env, capture_output=True, text=True)
        if p.returncode != 0:
            print("child failed:", p.stderr)
            return 2
        outputs[hashseed] = p.stdout

    for seed in ("0", "1"):
        print(f"PYTHONHASHSEED={seed}:")
        for line in outputs[seed].splitlines():
            print("   ", line[:330] + (" ... [%d chars]" % len(line) if len(line) > 330 else ""))

    if "SigmaConversionError" not in outputs["0"]:
        print("unexpected: no SigmaConversionError produced")
        return 2
    distinct = len(set(outputs.values()))
    if distinct > 1:
        sets = sorted(set(re.findall(r"applied_processing_items=\{[^}]*\}", "".join(outputs.values()))))
        print(
            f"DEFECT: the same SigmaConversionError record has {distinct} different texts in {len(outputs)} "
            f"processes with different PYTHONHASHSEED (rule repr with set, e.g. {sets[0]} vs. {sets[-1]})"
        )
        return 0
    print("OK: identical error records in all processes")
    return 1


if __name__ == "__main__":
    if len(sys.argv) > 1 and sys.argv[1] == "child":
        child()
        sys.exit(0)
    sys.exit(main())
