"""C05 / d1: slicing a SigmaString inside one plain part re-parses the cut-out characters.

Run: PYTHONPATH=/repo /venv/bin/python witness.py
exit 0 + "DEFECT: ..."  -> property violated
exit 1                   -> library behaves as the property says
"""
import sys
from sigma.types import SigmaString, SpecialChars


def flat(s):
    """SigmaString -> list of single characters / SpecialChars (what the value denotes)."""
    out = []
    for part in s.s:
        if isinstance(part, str):
            out.extend(part)
        else:
            out.append(part)
    return out


problems = []

# (source, index): the slice lies strictly inside ONE plain part that contains an escaped
# wildcard or consecutive backslashes.
cases = [
    (r"ab\*cd", slice(1, 4)),  # literal star in the middle
    (r"ab\*cd", 2),  # integer index on the literal star
    (r"ab\?cd", slice(1, 4)),  # literal question mark
    ("a" + "\\" * 4 + "b*", slice(1, 3)),  # value a\\b* (two backslashes), cut out both backslashes
    (r"*Test*Str\*ing*", slice(8, 11)),  # fixture of tests/test_types.py, cut "r*i"
]
for source, idx in cases:
    s = SigmaString(source)
    expected = flat(s)[idx] if isinstance(idx, slice) else [flat(s)[idx]]
    sub = s[idx]
    got = flat(sub)
    if got != expected:
        # show it by behaviour as well: rendering of the slice for a target with * ? wildcards
        rendered = sub.convert(escape_char="\\", wildcard_multi="*", wildcard_single="?")
        exp_s = SigmaString()
        exp_s.s = ["".join(expected)] if expected else []
        exp_rendered = exp_s.convert(escape_char="\\", wildcard_multi="*", wildcard_single="?")
        problems.append(
            f"SigmaString({source!r})[{idx}] -> parts {sub.s} renders {rendered!r}, "
            f"expected characters {expected} rendering {exp_rendered!r}"
        )

# control: the same characters cut out across the end of the part keep their meaning
ctrl = SigmaString(r"ab\*cd")[1:]
assert flat(ctrl) == list("b*cd"), ctrl.s

if problems:
    print("DEFECT: SigmaString.__getitem__ turns literal characters into wildcards / drops "
          "backslashes when start and end lie in the same plain part: " + problems[0])
    for p in problems[1:]:
        print("  also:", p)
    sys.exit(0)
print("OK: slices keep literal characters")
sys.exit(1)
