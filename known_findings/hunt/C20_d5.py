"""C20 / d5: the error record for a modifier that can't be applied to a regular expression embeds the
dataclass repr of the SigmaRegularExpression, including the *set* of regex flags. The order of the
flags in the message follows the hash of the enum member names, i.e. PYTHONHASHSEED."""
import os
import re
import subprocess
import sys

RULE = """
title: Regex with flags and a modifier that is not applicable to regular expressions
logsource:
    category: test
detection:
    sel:
        CommandLine|re|i|m|s|windash: '-enc\\s+[A-Za-z0-9]+'
    condition: sel
"""


def child() -> None:
    from sigma.collection import SigmaCollection

    collection = SigmaCollection.from_yaml(RULE, collect_errors=True)
    for rule in collection.rules:
        for e in rule.errors:
            print("RULE-ERROR", type(e).__name__, str(e))


def main() -> int:
    outputs = {}
    for hashseed in ("0", "1", "2", "3", "4", "5", "6", "7"):
        env = dict(os.environ, PYTHONHASHSEED=hashseed)
        p = subprocess.run([sys.executable, __file__, "child"], env=env, capture_output=True, text=True)
        if p.returncode != 0:
            print("child failed:", p.stderr)
            return 2
        outputs[hashseed] = p.stdout

    if "RULE-ERROR" not in outputs["0"]:
        print("unexpected: no error record produced:", outputs["0"])
        return 2
    by_text = {}
    for seed, out in outputs.items():
        by_text.setdefault(out, []).append(seed)
    for out, seeds in by_text.items():
        print(f"PYTHONHASHSEED in {seeds}:")
        print("    " + out.strip())
    if len(by_text) > 1:
        print(
            f"DEFECT: error record for the same rule has {len(by_text)} different texts in {len(outputs)} processes "
            "(regex flag set rendered in hash order inside the SigmaTypeError message)"
        )
        return 0
    print("OK: identical error records in all processes")
    return 1


if __name__ == "__main__":
    if len(sys.argv) > 1 and sys.argv[1] == "child":
        child()
        sys.exit(0)
    sys.exit(main())
