"""C14 / d3: the query of a correlation rule that is only a sub-query of another (chained) correlation
rule is post-processed although it is not emitted, so the one emitted query carries the post-processing
twice on one part - while detection-rule sub-queries in the very same query stay raw.

Property: post-processing items run on every EMITTED query (once, in item order).
"""
import sys
from sigma.backends.test import TextQueryTestBackend
from sigma.collection import SigmaCollection
from sigma.processing.pipeline import ProcessingPipeline

RULES = """
title: Successful login
name: successful_login
logsource: {product: windows}
detection:
    selection: {EventID: 528}
    condition: selection
---
title: Single failed login
name: failed_login
logsource: {product: windows}
detection:
    selection: {EventID: 529}
    condition: selection
---
title: Multiple failed logons
name: multiple_failed_login
correlation:
    type: event_count
    rules: [failed_login]
    group-by: [User]
    timespan: 10m
    condition: {gte: 10}
---
title: chain
correlation:
    type: temporal_ordered
    rules: [multiple_failed_login, successful_login]
    group-by: [User]
    timespan: 10m
"""
PIPE = """
postprocessing:
- type: embed
  prefix: "<<"
  suffix: ">>"
"""

plain = TextQueryTestBackend().convert(SigmaCollection.from_yaml(RULES))
post = TextQueryTestBackend(ProcessingPipeline.from_yaml(PIPE)).convert(SigmaCollection.from_yaml(RULES))
assert len(plain) == 1 and len(post) == 1, (plain, post)  # only the outer correlation is emitted

expected = "<<" + plain[0] + ">>"  # the single post-processing item applied once to the single emitted query
if post[0] != expected:
    print(
        "DEFECT: non-emitted inner correlation sub-query was post-processed; emitted query has "
        f"{post[0].count('<<')} '<<' markers instead of 1: {post[0]!r}"
    )
    sys.exit(0)
print("OK: post-processing applied exactly once to the emitted query")
sys.exit(1)
