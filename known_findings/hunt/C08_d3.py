"""
C08 witness d3: a valid rule that the backend cannot convert (nested value expansion:
`|windash|base64offset|contains`) fails with a plain AttributeError. In collecting mode this
exception is not recorded but escapes Backend.convert: the queries of all other rules are lost and
backend.errors stays empty, instead of "no query and exactly one (rule, error) record".
"""
import sys

from sigma.backends.test import TextQueryTestBackend
from sigma.collection import SigmaCollection
from sigma.exceptions import SigmaError

GOOD1 = """
title: good1
status: test
logsource:
    category: test
detection:
    sel:
        fieldA: v1
    condition: sel
"""
GOOD2 = """
title: good2
status: test
logsource:
    category: test
detection:
    sel:
        fieldB: v2
    condition: sel
"""
NESTED_EXPANSION = """
title: nested_expansion
status: test
logsource:
    category: process_creation
    product: windows
detection:
    sel:
        CommandLine|windash|base64offset|contains: ' -enc '
    condition: sel
"""

alone = {}
for name, src in (("good1", GOOD1), ("good2", GOOD2)):
    alone[name] = TextQueryTestBackend(collect_errors=True).convert(SigmaCollection.from_yaml(src))

problems = []
for position in range(3):
    rules = [GOOD1, GOOD2]
    rules.insert(position, NESTED_EXPANSION)
    collection = SigmaCollection.from_yaml("---".join(rules))  # loads without any error
    backend = TextQueryTestBackend(collect_errors=True)
    try:
        result = backend.convert(collection)
    except SigmaError as e:  # must not be raised in collecting mode either
        problems.append((position, "raised " + type(e).__name__))
        continue
    except Exception as e:
        problems.append((position, f"{type(e).__name__}: {e}"))
        continue
    records = [(r.title, e) for r, e in backend.errors]
    others = [q for q in result if q in (alone["good1"][0], alone["good2"][0])]
    own = len(result) - len(others)
    if others != alone["good1"] + alone["good2"]:
        problems.append((position, "other rules changed", result))
    elif not (
        (own == 1 and records == [])
        or (own == 0 and len(records) == 1 and records[0][0] == "nested_expansion")
    ):
        problems.append((position, "not accounted", result, records))

if problems:
    print(
        "DEFECT: collecting backend aborts the whole collection instead of recording the failing rule: "
        + repr(problems)
    )
    sys.exit(0)
print("ok: failing rule is isolated (one record or one query), other queries unchanged")
sys.exit(1)
