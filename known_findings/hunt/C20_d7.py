"""C20.R1 (fixed by 079639b): SigmaValidator.from_dict resolved the validator names by iterating a set; with several unknown
names the 'Unknown validator' message named the one met first, which follows PYTHONHASHSEED.

Run: /venv/bin/python known_findings/hunt/C20_d7.py   (exit 1 while the defect is present)"""
import os
import subprocess
import sys

CHILD = r'''
from sigma.validation import SigmaValidator
try:
    SigmaValidator.from_dict({"validators": ["foo_x", "bar_y", "baz_z", "qux"]}, {})
except Exception as e:
    print(type(e).__name__, e)
'''
outs = set()
for seed in range(8):
    env = dict(os.environ, PYTHONHASHSEED=str(seed))
    outs.add(subprocess.run([sys.executable, "-c", CHILD], capture_output=True, text=True, env=env).stdout.strip())
print("\n".join(sorted(outs)))
sys.exit(0 if len(outs) == 1 else 1)
