"""C03 d2: expand treats an *escaped* percent sign as the closing delimiter of a placeholder."""
import sys
from sigma.rule import SigmaDetectionItem
from sigma.exceptions import SigmaError
from sigma.types import Placeholder


def parts(value):
    return SigmaDetectionItem.from_mapping("f|expand", value).value[0].s


# controls: these behave as specified
assert parts(r"%a%") == [Placeholder("a")]
assert parts(r"\%a%") == ["%a%"]  # escaped opening percent: no placeholder
assert parts(r"\%a\%") == ["%a%"]

problems = []
# the closing percent is escaped -> there is no unescaped %name% sequence in these values
for value in (r"%a\%", r"5% up to 10\%", r"%TEMP\%\x", r"x%y\%z"):
    try:
        p = parts(value)
    except SigmaError:
        continue
    ph = [x for x in p if isinstance(x, Placeholder)]
    if ph:
        problems.append(f"{value!r} -> {p!r}")

if problems:
    print("DEFECT: expand turns a sequence closed by an escaped \\% into a placeholder (name ends in a backslash): " + "; ".join(problems))
    sys.exit(0)
print("OK: escaped percent signs never delimit a placeholder")
sys.exit(1)
