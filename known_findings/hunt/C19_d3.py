"""C19 / d3: AllOfThemConditionValidator reports the discouraged 'all of them' for a condition
that uses exactly the recommended form 'all of <prefix>*' - because the prefix starts with the
letters t-h-e-m."""
import sys

from sigma.backends.test import TextQueryTestBackend
from sigma.rule import SigmaRule
from sigma.validation import SigmaValidator
from sigma.validators.core import validators
from sigma.validators.core.condition import AllOfThemConditionIssue

RULE = """
title: Themida packed binary
id: 9a6b2a1e-7f0c-4e5f-8d3a-1b2c3d4e5f60
logsource:
    category: test
detection:
    themida_section:
        f1: v1
    themida_import:
        f2: v2
    legit:
        f3: v3
    condition: all of themida_* and not legit
"""
# same rule, detections renamed
CONTROL = RULE.replace("themida_", "packer_")
# the really discouraged form
POSITIVE = RULE.replace("all of themida_*", "all of them")


def run(rule_yaml):
    rule = SigmaRule.from_yaml(rule_yaml)
    validator = SigmaValidator.from_dict({"validators": ["all_of_them_condition"]}, validators)
    issues = [
        i for i in validator.validate_rules([rule]) if isinstance(i, AllOfThemConditionIssue)
    ]
    query = TextQueryTestBackend().convert_rule(SigmaRule.from_yaml(rule_yaml))
    return issues, query


issues, query = run(RULE)
control_issues, control_query = run(CONTROL)
positive_issues, positive_query = run(POSITIVE)

print("all of themida_* :", query, len(issues), "issue(s)")
print("all of packer_*  :", control_query, len(control_issues), "issue(s)")
print("all of them      :", positive_query, len(positive_issues), "issue(s)")

# The selector does not mean 'them': it leaves out 'legit', while 'all of them' includes it.
selector_is_not_them = query == control_query and query != positive_query
if not positive_issues or control_issues or not selector_is_not_them:
    print("unexpected baseline behaviour, witness not applicable")
    sys.exit(1)

if issues:
    print(
        "DEFECT: 'all of themida_*' (selects 2 of 3 detections, the recommended 'all of <prefix>*' form) "
        "is reported as AllOfThemConditionIssue; with the detections renamed to packer_* the issue disappears"
    )
    sys.exit(0)

print("OK: no 'all of them' issue for a prefix selector")
sys.exit(1)
