"""C03 d4: contains/startswith on a regular expression do not add the missing trailing wildcard when
the regex merely *looks* like it ends in '$' or '.*' but that tail is escaped (literal dollar, or
'\\.*' = any number of literal dots)."""
import re
import sys
from sigma.rule import SigmaDetectionItem


def modified(mod, regex):
    return str(SigmaDetectionItem.from_mapping(f"f|re|{mod}", regex).value[0].regexp)


# Oracle: the wildcards added by contains/startswith exist to make a whole-value match behave like
# "somewhere inside" / "at the beginning". So for every haystack:
#   fullmatch(contains(r), h)   <=> search(r, h)
#   fullmatch(startswith(r), h) <=> match(r, h)
haystacks = ["foo", "xfooy", "foo$", "xfoo$y", "foo$y", "foo.", "xfoo..y", "foo.y", "fooy", "bar"]
problems = []
for regex in (r"foo", r"foo.*", r"foo$", r"^foo", r"foo\\$",  # controls, all fine
              r"foo\$", r"foo\.*"):  # escaped tail
    c, s = modified("contains", regex), modified("startswith", regex)
    for h in haystacks:
        if bool(re.fullmatch(c, h)) != bool(re.search(regex, h)):
            problems.append(f"re|contains {regex!r} -> {c!r}: value {h!r} contains a match but the item does not match it")
        if bool(re.fullmatch(s, h)) != bool(re.match(regex, h)):
            problems.append(f"re|startswith {regex!r} -> {s!r}: value {h!r} starts with a match but the item does not match it")

if problems:
    print(f"DEFECT: missing trailing wildcard is not added to a regex with an escaped '$' / '\\.*' tail ({len(problems)} mismatches), e.g. {problems[0]}")
    for p in problems:
        print("   ", p)
    sys.exit(0)
print("OK: contains/startswith add the trailing wildcard whenever it is missing")
sys.exit(1)
