"""C09 witness d3: a rule whose *name* happens to be parseable as a UUID cannot be referenced by name.

Rule names are free strings.  A 32 digit hex name (e.g. a content hash such as an MD5 digest) - or any
other spelling `uuid.UUID()` accepts - is looked up ONLY in the id table by SigmaCollection.__getitem__,
so the correlation rule's reference to an existing rule is reported as "not found" in every document
order, although the identical rule set with another name loads and converts.
"""
import itertools
import sys

from sigma.backends.test import TextQueryTestBackend
from sigma.collection import SigmaCollection
from sigma.exceptions import SigmaError

TEMPLATE = [
    """
title: P1
name: {name}
logsource: {{category: test}}
detection:
    sel: {{f: v1}}
    condition: sel
""",
    """
title: P2
name: p2
logsource: {{category: test}}
detection:
    sel: {{f: v2}}
    condition: sel
""",
    """
title: C1
correlation:
    type: event_count
    rules:
        - {name}
    group-by: [user]
    timespan: 5m
    condition: {{gte: 2}}
""",
]
EXPECTED = sorted(
    [
        'f="v1"\n| aggregate window=5min count() as event_count by user\n| where event_count >= 2',
        'f="v2"',
    ]
)


def outcomes(name):
    res = set()
    for order in itertools.permutations(range(3)):
        docs = [TEMPLATE[i].format(name=name) for i in order]
        try:
            col = SigmaCollection.from_yaml("---".join(docs))
            res.add(("ok", tuple(sorted(TextQueryTestBackend().convert(col)))))
        except SigmaError as e:
            res.add(("error", type(e).__name__, str(e)))
    return res


control = outcomes("failed_logon")
assert control == {("ok", tuple(EXPECTED))}, control

bad = {}
for name in (
    "d41d8cd98f00b204e9800998ecf8427e",  # MD5-style name
    "deadbeef-dead-beef-dead-beefdeadbeef",  # name spelled like a UUID
):
    o = outcomes(name)
    print(name, "->", o)
    if o != {("ok", tuple(EXPECTED))}:
        bad[name] = o

if bad:
    print(
        "DEFECT: existing rule referenced by its name is reported missing when the name parses as a UUID: "
        + ", ".join(bad)
    )
    sys.exit(0)
print("OK: UUID-like names are resolved as names")
sys.exit(1)
