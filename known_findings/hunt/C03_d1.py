"""C03 d1: the 're' modifier on a non-string value (int, float, bool, null) is not rejected with a
Sigma error. Either a malformed SigmaRegularExpression (regexp is a raw int/None/...) is stored on
the detection item, or a later modifier of the chain dies with a raw TypeError/AttributeError."""
import sys
from sigma.rule import SigmaDetectionItem
from sigma.exceptions import SigmaError
from sigma.types import SigmaRegularExpression, SigmaString

problems = []
for key in ("f|re", "f|re|contains", "f|re|startswith", "f|re|expand", "f|re|i"):
    for v in (123, 1.5, True, None, ["a.*", 5]):
        try:
            item = SigmaDetectionItem.from_mapping(key, v)
        except SigmaError:
            continue  # rejected with a Sigma error: what the property demands
        except Exception as e:  # exception of the wrong kind
            problems.append(f"{key}: {v!r} raised {type(e).__name__}: {e}")
            continue
        # A value was produced. Tolerate it only if it is a well-formed regular expression
        # (i.e. a repair that stringifies the scalar); a regexp that is not a SigmaString is garbage.
        for val in item.value:
            if not (isinstance(val, SigmaRegularExpression) and isinstance(val.regexp, SigmaString)):
                problems.append(f"{key}: {v!r} produced malformed value {val!r}")

if problems:
    print(f"DEFECT: 're' on non-string values is not rejected with a Sigma error ({len(problems)} cases), e.g. {problems[0]}")
    for p in problems:
        print("   ", p)
    sys.exit(0)
print("OK: every non-string value under 're' is rejected with a Sigma error (or stored as a well-formed regex)")
sys.exit(1)
