"""C20 / d2: error records raised by processing conditions at match time embed repr() of the whole
processing pipeline (field ProcessingCondition._pipeline). That repr contains the random
'_cond_<10 letters>' name of every add_condition transformation and sets like applied_ids, so the
same rule + pipeline yields a different error string for each random draw and each PYTHONHASHSEED."""
import os
import re
import subprocess
import sys

PIPELINE = """
name: test pipeline
priority: 10
transformations:
  - id: map_a
    type: field_name_mapping
    mapping:
      a: b
  - id: suffix
    type: field_name_suffix
    suffix: ".keyword"
  - id: prefix
    type: field_name_prefix
    prefix: "win."
  - id: index_condition
    type: add_condition
    conditions:
      index: main
    rule_conditions:
      - type: rule_attribute
        attribute: date
        op: gte
        value: "01.02.2024"   # wrong date format: only detected while matching against a rule with a date
"""

RULE = """
title: Rule
date: 2024-03-01
logsource:
    category: test
detection:
    sel:
        a: 1
    condition: sel
"""


def child(seed: str) -> None:
    import random

    if seed != "none":
        random.seed(int(seed))

    from sigma.backends.test import TextQueryTestBackend
    from sigma.collection import SigmaCollection
    from sigma.processing.pipeline import ProcessingPipeline

    backend = TextQueryTestBackend(ProcessingPipeline.from_yaml(PIPELINE), collect_errors=True)
    queries = backend.convert(SigmaCollection.from_yaml(RULE))
    print("QUERIES", queries)
    for _, e in backend.errors:
        print("BACKEND-ERROR", type(e).__name__, str(e))


def main() -> int:
    runs = (("0", "1"), ("0", "2"), ("1", "1"), ("2", "1"), ("3", "1"), ("0", "none"))
    outputs = {}
    for hashseed, rseed in runs:
        env = dict(os.environ, PYTHONHASHSEED=hashseed)
        p = subprocess.run(
            [sys.executable, __file__, "child", rseed], env=env, capture_output=True, text=True
        )
        if p.returncode != 0:
            print("child failed:", p.stderr)
            return 2
        outputs[(hashseed, rseed)] = p.stdout

    first = outputs[("0", "1")]
    print("error record of first process (shortened):")
    for line in first.splitlines():
        print("   ", line[:160] + (" ... [%d chars]" % len(line) if len(line) > 160 else ""))

    same_hash_diff_random = outputs[("0", "1")] != outputs[("0", "2")]
    same_random_diff_hash = len({outputs[(h, "1")] for h in "0123"}) > 1
    names = sorted(set(re.findall(r"_cond_[a-z]{10}", "".join(outputs.values()))))
    sets = sorted(set(re.findall(r"applied_ids=\{[^}]*\}", "".join(outputs.values()))))
    if same_hash_diff_random:
        print("differs for different random seeds; internal names seen:", names[:3])
    if same_random_diff_hash:
        print("differs for different PYTHONHASHSEED; set renderings seen:", sets[:3])

    if len(set(outputs.values())) > 1:
        print(
            "DEFECT: the error record of a failing rule_attribute condition is not reproducible: it embeds the "
            "pipeline repr with the random add_condition name and hash-ordered sets "
            f"({len(set(outputs.values()))} distinct strings in {len(outputs)} runs)"
        )
        return 0
    print("OK: identical error records in all processes")
    return 1


if __name__ == "__main__":
    if len(sys.argv) > 2 and sys.argv[1] == "child":
        child(sys.argv[2])
        sys.exit(0)
    sys.exit(main())
