"""
C10 / d4: a condition field that names an ALIAS of the correlation rule is renamed by a field
mapping, while the same alias is (correctly) protected in group-by. The aggregation then works on
a field that the normalisation never sets.
"""
import re
import sys

from sigma.backends.test import TextQueryTestBackend
from sigma.collection import SigmaCollection
from sigma.processing.pipeline import ProcessingPipeline

RULES = """
title: A
name: rule_a
logsource: {product: windows}
detection:
  sel: {action: login}
  condition: sel
---
title: B
name: rule_b
logsource: {product: linux}
detection:
  sel: {action: logon}
  condition: sel
---
title: C
name: corr
correlation:
  type: value_count
  rules: [rule_a, rule_b]
  timespan: 5m
  group-by: [user]
  aliases:
    user:
      rule_a: TargetUserName
      rule_b: acct
    ip:
      rule_a: IpAddress
      rule_b: addr
  condition: {gte: 5, field: ip}
"""

# an ordinary taxonomy mapping that happens to contain the names chosen as aliases
PIPELINE = """
name: ecs
priority: 10
transformations:
  - id: ecs
    type: field_name_mapping
    mapping:
      ip: source.ip
      user: user.name
"""

backend = TextQueryTestBackend(ProcessingPipeline.from_yaml(PIPELINE))
query = backend.convert(SigmaCollection.from_yaml(RULES))[0]
print(query)
print("-----")

set_fields = set(re.findall(r"\| set (\w[\w.]*)=", query)) - {"event_type"}
counted = re.search(r"value_count\((.*?)\) as", query).group(1)
grouped = re.search(r" by (.*)$", query, re.M).group(1).split(", ")
print("fields set by normalisation:", sorted(set_fields))
print("group-by:", grouped, " counted field:", counted)

if grouped != ["user"]:
    print("unexpected: group-by alias was renamed too")
    sys.exit(1)
if counted not in set_fields:
    print(
        f"DEFECT: condition field alias 'ip' was renamed to {counted!r} although the normalisation "
        "sets 'ip' (group-by alias 'user' is left alone as it should be)"
    )
    sys.exit(0)
print("OK: condition field still names the alias")
sys.exit(1)
