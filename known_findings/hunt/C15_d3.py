"""C15 / d3: applied-item tracking of nested query postprocessing leaks into later rules.
NestedQueryPostprocessingTransformation owns a private pipeline whose `applied_ids` set is only ever
added to (ProcessingPipeline.postprocess_query) and never reset (reset happens in apply(), which is
never called on that private pipeline). After every rule the whole accumulated set is merged into
the enclosing pipeline's `applied_ids`."""
import sys
from sigma.backends.test import TextQueryTestBackend
from sigma.processing.conditions import LogsourceCondition
from sigma.processing.pipeline import ProcessingPipeline, QueryPostprocessingItem
from sigma.processing.postprocessing import (
    EmbedQueryTransformation,
    NestedQueryPostprocessingTransformation,
    QueryTemplateTransformation,
)
from sigma.rule import SigmaRule


def pipeline():
    return ProcessingPipeline(
        name="pp",
        postprocessing_items=[
            QueryPostprocessingItem(
                identifier="outer",
                transformation=NestedQueryPostprocessingTransformation(
                    items=[
                        QueryPostprocessingItem(
                            identifier="win_only",
                            transformation=EmbedQueryTransformation(prefix="WIN(", suffix=")"),
                            rule_conditions=[LogsourceCondition(product="windows")],
                        ),
                    ]
                ),
            ),
            # makes the tracking information visible in the conversion result
            QueryPostprocessingItem(
                identifier="report",
                transformation=QueryTemplateTransformation(
                    template="{{ query }} /* applied: {{ pipeline.applied_ids | select('in', ['outer', 'win_only']) | sort | join(',') }} */"
                ),
            ),
        ],
    )


def rule(title, product):
    return SigmaRule.from_yaml(
        f"""
title: {title}
logsource:
  product: {product}
detection:
  sel:
    f: x
  condition: sel
"""
    )


fresh_backend = TextQueryTestBackend(pipeline())
fresh = fresh_backend.convert_rule(rule("probe", "linux"))
fresh_ids = set(fresh_backend.last_processing_pipeline.applied_ids)

b = TextQueryTestBackend(pipeline())
earlier = b.convert_rule(rule("earlier", "windows"))
after = b.convert_rule(rule("probe", "linux"))
after_ids = set(b.last_processing_pipeline.applied_ids)

print("windows rule         :", earlier)
print("fresh linux probe    :", fresh, sorted(fresh_ids))
print("linux probe afterward:", after, sorted(after_ids))

if after != fresh or after_ids != fresh_ids:
    print(
        "DEFECT: item 'win_only' is reported as applied to the linux probe because it was applied to an "
        f"earlier windows rule: {after} instead of {fresh}"
    )
    sys.exit(0)
sys.exit(1)
