"""C03 d5: the utf16 modifier does not prepend the UTF-16 byte order mark. It prepends the character
U+FEFF, which every byte-level consumer (base64, base64offset, a UTF-8 query) sees as EF BB BF - the
UTF-8 BOM - instead of FF FE followed by UTF-16LE code units."""
import sys
from base64 import b64encode, b64decode
from sigma.rule import SigmaDetectionItem
from sigma.types import SigmaString

problems = []
for text in ("A", "cmd", "ping -n"):
    spec_bytes = b"\xff\xfe" + text.encode("utf-16le")  # "prepends a byte order mark and encodes UTF16"
    assert spec_bytes == text.encode("utf-16") or sys.byteorder != "little"
    got = SigmaDetectionItem.from_mapping("f|utf16|base64", text).value[0]
    if got != SigmaString(b64encode(spec_bytes).decode()):
        problems.append(
            f"utf16|base64 {text!r}: got {got.to_plain()!r} = bytes {b64decode(got.to_plain()).hex(' ')}, "
            f"spec {b64encode(spec_bytes).decode()!r} = bytes {spec_bytes.hex(' ')}"
        )

# controls: the sibling encodings are byte-exact
assert SigmaDetectionItem.from_mapping("f|wide|base64", "A").value[0] == SigmaString(b64encode("A".encode("utf-16le")).decode())
assert SigmaDetectionItem.from_mapping("f|utf16be|base64", "A").value[0] == SigmaString(b64encode("A".encode("utf-16be")).decode())

if problems:
    print("DEFECT: utf16 prepends the UTF-8 encoding of U+FEFF instead of the UTF-16 BOM: " + problems[0])
    for p in problems[1:]:
        print("   ", p)
    sys.exit(0)
print("OK: utf16|base64 equals base64(BOM + UTF-16LE)")
sys.exit(1)
