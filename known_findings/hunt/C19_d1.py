"""C19 / d1: a SigmaValidator that is used for a second validation run (here: before and after
conversion) reports every rule as colliding with itself, although nothing changed."""
import sys
from pathlib import Path

from sigma.backends.test import TextQueryTestBackend
from sigma.collection import SigmaCollection
from sigma.exceptions import SigmaRuleLocation
from sigma.validation import SigmaValidator
from sigma.validators.core import validators

RULES = """
title: Rule A
id: 9a6b2a1e-7f0c-4e5f-8d3a-1b2c3d4e5f60
logsource:
    category: test
detection:
    sel:
        field: a
    condition: sel
---
title: Rule B
id: 9a6b2a1e-7f0c-4e5f-8d3a-1b2c3d4e5f61
logsource:
    category: test
detection:
    sel:
        field: b
    condition: sel
"""

collection = SigmaCollection.from_yaml(RULES)
# give the two rules different files in different directories, so that nothing is shared
collection.rules[0].source = SigmaRuleLocation(Path("/rules/a/rule_a.yml"))
collection.rules[1].source = SigmaRuleLocation(Path("/rules/b/rule_b.yml"))

validator = SigmaValidator.from_dict(
    {"validators": ["identifier_uniqueness", "duplicate_title", "duplicate_filename"]},
    validators,
)


def canon(issues):
    return sorted(
        (type(i).__name__, tuple(sorted(str(r.id) for r in i.rules))) for i in issues
    )


dicts_before = [r.to_dict() for r in collection.rules]
before = canon(validator.validate_rules(collection))
queries = TextQueryTestBackend().convert(collection)
dicts_after = [r.to_dict() for r in collection.rules]
after = canon(validator.validate_rules(collection))

print("queries:", queries)
print("issues of 1st run (before conversion):", before)
print("issues of 2nd run (after conversion): ", after)

if dicts_before != dicts_after:
    print("unexpected: conversion changed the rules, witness not applicable")
    sys.exit(1)

if before != after:
    self_collisions = [i for i in after if len(set(i[1])) < len(i[1])]
    print(
        "DEFECT: same unchanged collection, same SigmaValidator: 2nd validate_rules() reports "
        f"{len(after)} uniqueness issue(s) (1st run: {len(before)}); "
        f"{len(self_collisions)} of them name a rule as colliding with itself"
    )
    sys.exit(0)

print("OK: both validation runs report the same issues")
sys.exit(1)
