"""C15 / d2: SetFieldTransformation hands its own `fields` list object to every rule. A later
add_field / remove_field item of the same pipeline then mutates the transformation's configuration
while processing rule N, and rule N+1 starts from the mutated list."""
import sys
from sigma.backends.test import TextQueryTestBackend
from sigma.processing.pipeline import ProcessingPipeline
from sigma.rule import SigmaRule

PIPELINE = """
name: fields-pipeline
priority: 10
transformations:
  - id: base_fields
    type: set_field
    fields: [host, user]
  - id: win_extra
    type: add_field
    field: image
    rule_conditions:
      - type: logsource
        product: windows
  - id: linux_less
    type: remove_field
    field: user
    rule_conditions:
      - type: logsource
        product: macos
postprocessing:
  - type: template
    template: "{{ query }} | fields {{ rule.fields | join(',') }}"
"""

def rule(title, product):
    return SigmaRule.from_yaml(
        f"""
title: {title}
logsource:
  product: {product}
detection:
  sel:
    f: x
  condition: sel
"""
    )

def backend():
    return TextQueryTestBackend(ProcessingPipeline.from_yaml(PIPELINE))

# Oracle: new backend, new pipeline from the same YAML
fresh_linux = backend().convert_rule(rule("probe", "linux"))      # host,user
fresh_windows = backend().convert_rule(rule("probe", "windows"))  # host,user,image

b = backend()
b.convert_rule(rule("earlier 1", "windows"))
second_windows = b.convert_rule(rule("probe", "windows"))
after_linux = b.convert_rule(rule("probe", "linux"))

b2 = backend()
b2.convert_rule(rule("earlier", "macos"))  # removes 'user' for this rule only
after_macos_linux = b2.convert_rule(rule("probe", "linux"))

print("fresh linux               :", fresh_linux)
print("linux after windows rules :", after_linux)
print("fresh windows             :", fresh_windows)
print("windows after windows rule:", second_windows)
print("linux after macos rule    :", after_macos_linux)

if (
    after_linux != fresh_linux
    or second_windows != fresh_windows
    or after_macos_linux != fresh_linux
):
    print(
        "DEFECT: field list of the probe depends on rules processed before: "
        f"{after_linux} / {second_windows} / {after_macos_linux} instead of {fresh_linux} / {fresh_windows} / {fresh_linux}"
    )
    sys.exit(0)
sys.exit(1)
