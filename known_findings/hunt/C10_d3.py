"""
C10 / d3: alias targets are renamed with the renaming of ANOTHER referenced rule.
A field mapping restricted to windows rules (rule_conditions: logsource product windows) renames
`user` only in rule_a (windows); rule_b (linux) keeps `user`. The alias mapping of the correlation
rule names one field per referenced rule, but both targets are renamed, so the normalisation
emitted for rule_b reads a field (`winlog.user`) that rule_b's own query does not use.
"""
import re
import sys

from sigma.backends.test import TextQueryTestBackend
from sigma.collection import SigmaCollection
from sigma.processing.pipeline import ProcessingPipeline

RULES = """
title: A
name: rule_a
logsource: {product: windows}
detection:
  sel: {user: x}
  condition: sel
---
title: B
name: rule_b
logsource: {product: linux}
detection:
  sel: {user: y}
  condition: sel
---
title: C
name: corr
correlation:
  type: temporal
  rules: [rule_a, rule_b]
  timespan: 5m
  group-by: [u]
  aliases:
    u:
      rule_a: user
      rule_b: user
  condition: {gte: 2}
"""

PIPELINE = """
name: windows-only
priority: 10
transformations:
  - id: win_user
    type: field_name_mapping
    mapping: {user: winlog.user}
    rule_conditions:
      - type: logsource
        product: windows
"""

backend = TextQueryTestBackend(ProcessingPipeline.from_yaml(PIPELINE))
query = backend.convert(SigmaCollection.from_yaml(RULES))[0]
print(query)
print("-----")

# test backend: subsearch { <query> | set event_type="<rule>" | set <alias>=<field> }
subs = {
    m.group(2): (m.group(1), m.group(3))
    for m in re.finditer(r'subsearch \{ (.*?) \| set event_type="(\w+)" \| set u=(\S+) \}', query)
}
assert set(subs) == {"rule_a", "rule_b"}, subs


def field_of(q):  # field name used by the rule's own (renamed or not) query
    return q.split("=")[0].strip("'")


bad = []
for name, (q, alias_target) in subs.items():
    print(f"{name}: own query uses field {field_of(q)!r}, alias u is fed from {alias_target!r}")
    if field_of(q) != alias_target:
        bad.append(name)

if bad:
    print(
        f"DEFECT: alias target of {bad} renamed inconsistently with the renaming applied to that "
        "referenced rule (rule-conditional field mapping is applied to every alias target)"
    )
    sys.exit(0)
print("OK: alias targets follow the renaming of their own rule")
sys.exit(1)
