"""
wildcard_placeholders inside a regular expression (`|re|expand`) inserts the bare quantifier `*`
instead of a wildcard: 'foo%var%' becomes /foo*/ ("fo", "foo", "fooo", ...), not /foo.*/;
'%var%foo' becomes the invalid regex '*foo' and the conversion fails.

Run: PYTHONPATH=/repo /venv/bin/python witness.py
exit 0 + "DEFECT: ..." -> property violated; exit 1 -> library behaves as the property demands.
"""
import re
import sys
from sigma.collection import SigmaCollection
from sigma.processing.pipeline import ProcessingPipeline
from sigma.backends.test import TextQueryTestBackend

RULE = """
title: t
status: test
logsource:
    category: test
detection:
    sel:
        {item}
    condition: sel
"""
PIPELINE = """
name: p
priority: 10
transformations:
  - type: wildcard_placeholders
"""


def convert(item: str, pipeline: str | None = None):
    p = ProcessingPipeline.from_yaml(pipeline) if pipeline else None
    try:
        return TextQueryTestBackend(p).convert(SigmaCollection.from_yaml(RULE.format(item=item)))
    except Exception as e:  # noqa
        return f"{type(e).__name__}: {e}"


def regex_of(result):
    """Extract the regular expression from the test backend query f=/.../"""
    if isinstance(result, list) and len(result) == 1:
        m = re.fullmatch(r"f=/(.*)/", result[0])
        if m:
            return m[1]
    return None


# For plain strings the transformation is documented and behaves as "placeholder -> wildcard":
assert convert("f|expand: 'foo%var%'", PIPELINE) == convert("f: 'foo*'")

# events the rule 'foo<anything>' must / must not match after the placeholder became a wildcard
SHOULD_MATCH = ["foobar", "foo", "foo-1"]
SHOULD_NOT_MATCH = ["fo"]

violations = []
for item, rewritten in [
    ("f|re|expand: 'foo%var%'", "f|re: 'foo.*'"),
    ("f|re|expand: '%var%foo'", "f|re: '.*foo'"),
]:
    got = convert(item, PIPELINE)
    want = convert(rewritten)
    print(f"{item}\n   pipeline : {got}\n   rewritten: {want}")
    rx_got, rx_want = regex_of(got), regex_of(want)
    if rx_got is None:
        violations.append(f"{item} -> {got}")
        continue
    if item.endswith("'foo%var%'"):
        # compare by meaning: full match of the field value as the regex is given
        sem_got = [bool(re.fullmatch(rx_got, e)) for e in SHOULD_MATCH + SHOULD_NOT_MATCH]
        sem_want = [bool(re.fullmatch(rx_want, e)) for e in SHOULD_MATCH + SHOULD_NOT_MATCH]
        print(f"   matches {SHOULD_MATCH + SHOULD_NOT_MATCH}: pipeline {sem_got}, rewritten {sem_want}")
        if sem_got != sem_want:
            violations.append(f"{item} -> /{rx_got}/ instead of /{rx_want}/")
    elif rx_got != rx_want:
        violations.append(f"{item} -> /{rx_got}/ instead of /{rx_want}/")

if violations:
    print("DEFECT: wildcard_placeholders puts a bare '*' quantifier into regular expressions: " + "; ".join(violations))
    sys.exit(0)
sys.exit(1)
