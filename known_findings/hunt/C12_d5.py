"""
replace_string (default mode) and map_string turn a case-sensitive value (`|cased`) into an
ordinary case-insensitive string: the case-sensitive match operator is lost from the query.

Run: PYTHONPATH=/repo /venv/bin/python witness.py
exit 0 + "DEFECT: ..." -> property violated; exit 1 -> library behaves as the property demands.
"""
import sys
from sigma.collection import SigmaCollection
from sigma.processing.pipeline import ProcessingPipeline
from sigma.backends.test import TextQueryTestBackend

RULE = """
title: t
status: test
logsource:
    category: test
detection:
    sel:
        {item}
    condition: sel
"""
HEAD = "name: p\npriority: 10\ntransformations:\n"


def convert(item: str, pipeline: str | None = None):
    p = ProcessingPipeline.from_yaml(pipeline) if pipeline else None
    try:
        return TextQueryTestBackend(p).convert(SigmaCollection.from_yaml(RULE.format(item=item)))
    except Exception as e:  # noqa
        return f"{type(e).__name__}: {e}"


CASES = [
    (
        "replace_string Foo->bar",
        "f|cased: 'FooBar'",
        HEAD + "  - type: replace_string\n    regex: Foo\n    replacement: bar\n",
        "f|cased: 'barBar'",
    ),
    (
        "replace_string on cased contains",
        "f|cased|contains: 'FooBar'",
        HEAD + "  - type: replace_string\n    regex: Foo\n    replacement: bar\n",
        "f|cased|contains: 'barBar'",
    ),
    (
        "map_string FooBar->Other",
        "f|cased: 'FooBar'",
        HEAD + "  - type: map_string\n    mapping:\n      FooBar: Other\n",
        "f|cased: 'Other'",
    ),
    (
        "map_string FooBar->[One, Two]",
        "f|cased: 'FooBar'",
        HEAD + "  - type: map_string\n    mapping:\n      FooBar:\n        - One\n        - Two\n",
        "f|cased:\n            - One\n            - Two",
    ),
]

# sanity: other string transformations keep the string class
assert convert("f|cased: 'FooBar'", HEAD + "  - type: case\n    method: lower\n") == convert("f|cased: 'foobar'")
assert convert(
    "f|cased: 'FooBar'",
    HEAD + "  - type: replace_string\n    regex: Foo\n    replacement: bar\n    skip_special: true\n",
) == convert("f|cased: 'barBar'")

violations = []
for name, item, pipe, rewritten in CASES:
    got = convert(item, pipe)
    want = convert(rewritten)
    print(f"[{name}]\n   pipeline : {got}\n   rewritten: {want}")
    if got != want:
        violations.append(f"{name}: {got} instead of {want}")

if violations:
    print("DEFECT: case-sensitive strings become case-insensitive: " + "; ".join(violations))
    sys.exit(0)
sys.exit(1)
