"""C20 / d1: the random '_filt_<10 letters>' prefix a SigmaFilter draws when it is applied to a rule
shows up in the error records: the same rule + filter gives a different error string in every
process (and for every seed of the random module)."""
import os
import re
import subprocess
import sys

RULE = """
title: Rule
logsource:
    category: test
detection:
    sel:
        a: 1
    condition: sel
"""

# filter whose condition refers to an identifier that the filter doesn't define (typo)
FILTER_UNDEFINED = """
title: Filter with typo in condition
logsource:
    category: test
filter:
    rules: any
    f_admin:
        user: admin
    condition: not f_admin and not f_svc
"""


def child(seed: str) -> None:
    import random

    if seed != "none":
        random.seed(int(seed))

    from sigma.backends.test import TextQueryTestBackend
    from sigma.collection import SigmaCollection
    from sigma.exceptions import SigmaError

    for flt in (FILTER_UNDEFINED,):
        backend = TextQueryTestBackend(collect_errors=True)
        try:
            collection = SigmaCollection.from_yaml(RULE + "\n---\n" + flt, collect_errors=True)
            queries = backend.convert(collection)
            print("QUERIES", queries)
            for rule in collection.rules:
                for e in rule.errors:
                    print("RULE-ERROR", type(e).__name__, str(e))
            for _, e in backend.errors:
                print("BACKEND-ERROR", type(e).__name__, str(e))
        except SigmaError as e:
            print("RAISED", type(e).__name__, str(e))


def main() -> int:
    outputs = []
    for hashseed, rseed in (("0", "1"), ("0", "2"), ("1", "1"), ("0", "none"), ("0", "none")):
        env = dict(os.environ, PYTHONHASHSEED=hashseed)
        p = subprocess.run(
            [sys.executable, __file__, "child", rseed], env=env, capture_output=True, text=True
        )
        if p.returncode != 0:
            print("child failed:", p.stderr)
            return 2
        outputs.append(p.stdout)

    leaked = sorted(set(re.findall(r"_filt_[a-z]{10}", "".join(outputs))))
    distinct = len(set(outputs))
    print("--- output of first process ---")
    print(outputs[0], end="")
    print("--- output of second process ---")
    print(outputs[1], end="")
    if distinct > 1:
        print(
            f"DEFECT: error records of the same rule+filter differ between processes "
            f"({distinct} distinct outputs in {len(outputs)} runs) and contain random filter prefixes {leaked[:3]}"
        )
        return 0
    print("OK: error records are identical and free of internal identifiers")
    return 1


if __name__ == "__main__":
    if len(sys.argv) > 2 and sys.argv[1] == "child":
        child(sys.argv[2])
        sys.exit(0)
    sys.exit(main())
