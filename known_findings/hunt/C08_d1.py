"""
C08 witness d1: a rule whose output is enabled (referenced by a correlation rule with
`generate: true`) is emitted un-finalised in a collection conversion, i.e. its query differs from
what converting that rule alone yields (no finalize_query_<format>, no query postprocessing).
"""
import sys

from sigma.backends.test import TextQueryTestBackend
from sigma.collection import SigmaCollection
from sigma.processing.pipeline import ProcessingPipeline

RULE_A = """
title: A
name: rule_a
status: test
logsource:
    category: test
detection:
    sel:
        fieldA: v1
    condition: sel
"""
RULE_B = """
title: B
status: test
logsource:
    category: test
detection:
    sel:
        fieldB: v2
    condition: sel
"""
CORRELATION = """
title: C
status: test
correlation:
    type: event_count
    rules:
        - rule_a
    generate: true
    group-by: [user]
    timespan: 5m
    condition:
        gte: 3
"""
PIPELINE = """
name: embed
postprocessing:
  - type: embed
    prefix: "search "
    suffix: " | done"
"""


def backend(with_pipeline):
    return TextQueryTestBackend(
        ProcessingPipeline.from_yaml(PIPELINE) if with_pipeline else None, collect_errors=True
    )


violations = []
for output_format in ("default", "test", "state"):
    for with_pipeline in (False, True):
        if output_format == "default" and not with_pipeline:
            continue  # finalisation is the identity here, nothing to observe
        b = backend(with_pipeline)
        alone_a = b.convert(SigmaCollection.from_yaml(RULE_A), output_format)
        b = backend(with_pipeline)
        alone_b = b.convert(SigmaCollection.from_yaml(RULE_B), output_format)

        b = backend(with_pipeline)
        coll = SigmaCollection.from_yaml("---".join([RULE_A, RULE_B, CORRELATION]))
        result = b.convert(coll, output_format)
        assert b.errors == [], b.errors
        # rule A has its output enabled (generate: true): collection order is A, B, C
        assert coll.rules[0].title == "A" and coll.rules[0]._output
        if len(result) != 3:
            violations.append((output_format, with_pipeline, "count", result))
            continue
        if result[1] != alone_b[0]:
            violations.append((output_format, with_pipeline, "B changed", result[1], alone_b[0]))
        if result[0] != alone_a[0]:
            violations.append((output_format, with_pipeline, result[0], alone_a[0]))

if violations:
    v = violations[0]
    print(
        "DEFECT: rule with enabled output (correlation generate: true) is emitted un-finalised: "
        f"format={v[0]} pipeline={v[1]} in collection {v[2]!r} but alone {v[3]!r} "
        f"({len(violations)} format/pipeline combinations differ)"
    )
    sys.exit(0)
print("ok: generated rule query equals the query of the rule converted alone")
sys.exit(1)
