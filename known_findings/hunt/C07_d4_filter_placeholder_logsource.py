# C07 / d4: collection with a rule and a filter whose log source is missing/invalid: collecting
# mode raises SigmaTypeError from the filter application instead of returning the collected error
from sigma.collection import SigmaCollection
import sys
from sigma.exceptions import SigmaError


def probe(label, loader):
    """Returns list of violation strings for one document/loader."""
    problems = []
    strict_exc = None
    try:
        loader(False)
    except SigmaError as e:
        strict_exc = e
    except Exception as e:  # noqa
        problems.append(f"{label}: strict loading raised {type(e).__name__}({e}) instead of a SigmaError")
        strict_exc = e
    try:
        obj = loader(True)
    except Exception as e:  # noqa
        problems.append(f"{label}: collect_errors=True raised {type(e).__name__}({e})")
        return problems
    errors = list(obj.errors)
    if (strict_exc is not None) != bool(errors):
        problems.append(f"{label}: strict raised {strict_exc!r} but collected errors are {errors!r}")
    elif errors and isinstance(strict_exc, SigmaError) and not (errors[0] == strict_exc):
        problems.append(f"{label}: first collected error {errors[0]!r} != strict error {strict_exc!r}")
    return problems


def finish(problems):
    if problems:
        print("DEFECT: " + " | ".join(problems))
        sys.exit(0)
    print("OK: library behaves as the property says")
    sys.exit(1)

RULE = """
title: Base
name: rule_a
logsource:
    category: process_creation
detection:
    sel:
        Image: a.exe
    condition: sel
---
"""

FILTERS = {
    "filter without logsource": """
title: Filter
filter:
    rules: any
    sel:
        User: admin
    condition: not sel
""",
    "filter with logsource: some string": """
title: Filter
logsource: process_creation
filter:
    rules: any
    sel:
        User: admin
    condition: not sel
""",
    "filter with empty logsource map": """
title: Filter
logsource: {}
filter:
    rules: [rule_a]
    sel:
        User: admin
    condition: not sel
""",
}

problems = []
for label, flt in FILTERS.items():
    doc = RULE + flt
    problems += probe(label, lambda c, doc=doc: SigmaCollection.from_yaml(doc, collect_errors=c))
finish(problems)
