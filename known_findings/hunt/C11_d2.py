"""C11 witness: a filter detection whose name equals a condition keyword is not renamed in the
filter condition, so the filter condition refers to the *rule's* detection of that name (capture)
or to nothing at all ("not defined")."""
import sys
from sigma.collection import SigmaCollection
from sigma.backends.test import TextQueryTestBackend
from sigma.exceptions import SigmaError

RULE = """
title: Rule
name: r1
logsource:
    product: windows
detection:
    sel:
        ra: v
    {name}:
        rb: v
    condition: sel
"""
RULE_NO_COLLISION = """
title: Rule
name: r1
logsource:
    product: windows
detection:
    sel:
        ra: v
    condition: sel
"""
FILTER = """
title: Filter
logsource:
    product: windows
filter:
    rules: any
    {name}:
        ff: v
    condition: not {name}
"""
# the same detections/condition as an ordinary rule: shows that the name is a legal identifier
FILTER_AS_RULE = """
title: Filter as rule
logsource:
    product: windows
detection:
    {name}:
        ff: v
    condition: not {name}
"""

def convert(y):
    return TextQueryTestBackend().convert(SigmaCollection.from_yaml(y))

defects = []
for name in ("all", "any", "of"):
    assert convert(FILTER_AS_RULE.format(name=name)) == ['not ff="v"']   # legal as ordinary condition
    expected = 'ra="v" and not ff="v"'
    # (a) rule has an (unused) detection of the same name: it is captured by the filter condition
    got = convert(RULE.format(name=name) + "---" + FILTER.format(name=name))
    print(name, "collision   :", got)
    if got != [expected]:
        defects.append(f"name '{name}': got {got[0]!r}, expected {expected!r}")
    # (b) rule has no such detection: conversion fails although the filter defines the detection
    try:
        got = convert(RULE_NO_COLLISION + "---" + FILTER.format(name=name))
        print(name, "no collision:", got)
        if got != [expected]:
            defects.append(f"name '{name}' (no collision): got {got[0]!r}")
    except SigmaError as e:
        print(name, "no collision:", type(e).__name__, e)
        defects.append(f"name '{name}' (no collision): {type(e).__name__}: {e}")

if defects:
    print("DEFECT: filter detection named like a keyword is resolved against the rule's detections: " + "; ".join(defects[:2]))
    sys.exit(0)
print("OK")
sys.exit(1)
