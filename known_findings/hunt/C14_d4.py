"""C14 / d4: pipeline finalizers do not receive the list of queries when the output format's own
output finalisation already collapsed it (formats "str" and "bytes" of the test backend).

Property: finalizers run once on THE WHOLE LIST (of emitted, post-processed queries), in order.
"""
import sys
from dataclasses import dataclass, field
from typing import Any
from sigma.backends.test import TextQueryTestBackend
from sigma.collection import SigmaCollection
from sigma.processing.pipeline import ProcessingPipeline
from sigma.processing.finalization import Finalizer

RULES = """
title: T1
logsource: {category: test}
detection:
  sel: {fieldA: a}
  condition: sel
---
title: T2
logsource: {category: test}
detection:
  sel: {fieldB: b}
  condition: sel
"""
PIPE = """
finalizers:
- type: concat
  separator: " ;; "
"""

seen = []

@dataclass
class Recorder(Finalizer):
    def apply(self, queries: Any) -> Any:
        seen.append(queries)
        return queries

problems = []
for fmt in ("default", "str", "bytes"):
    seen.clear()
    TextQueryTestBackend(ProcessingPipeline(finalizers=[Recorder()])).convert(SigmaCollection.from_yaml(RULES), fmt)
    arg = seen[0]
    if not (isinstance(arg, list) and arg == ['mappedA="a"', 'fieldB="b"']):
        problems.append(f"format {fmt}: finalizer received {type(arg).__name__} {arg!r}")

# visible consequence with a stock finalizer from YAML
try:
    concat_str = TextQueryTestBackend(ProcessingPipeline.from_yaml(PIPE)).convert(SigmaCollection.from_yaml(RULES), "str")
except Exception as e:  # pragma: no cover
    concat_str = f"{type(e).__name__}: {e}"
concat_default = TextQueryTestBackend(ProcessingPipeline.from_yaml(PIPE)).convert(SigmaCollection.from_yaml(RULES), "default")
assert concat_default == 'mappedA="a" ;; fieldB="b"', concat_default

if problems:  # decision only on what the finalizer is handed; the concat output is illustration
    print(
        "DEFECT: finalizers are applied to the format's collapsed output, not to the query list: "
        + "; ".join(problems)
        + f"; concat finalizer with format 'str' yields {concat_str[:60]!r}... instead of {concat_default!r}"
    )
    sys.exit(0)
print("OK: finalizers always receive the whole list of queries")
sys.exit(1)
