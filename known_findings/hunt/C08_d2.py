"""
C08 witness d2: a condition whose selector pattern matches no detection ("1 of nothing*") makes the
rule lose that query silently: no query and no (rule, error) record. The queries of a collection can
then no longer be accounted for (fewer queries than conditions, backend.errors empty).
"""
import sys

from sigma.backends.test import TextQueryTestBackend
from sigma.collection import SigmaCollection

GOOD1 = """
title: good1
status: test
logsource:
    category: test
detection:
    sel:
        fieldA: v1
    condition: sel
"""
GOOD2 = """
title: good2
status: test
logsource:
    category: test
detection:
    sel:
        fieldB: v2
    condition: sel
"""
# single condition that names detections that do not exist
MISSING_SINGLE = """
title: missing_single
status: test
logsource:
    category: test
detection:
    sel:
        f: v
    condition: 1 of nothing*
"""
# two conditions, the second one names detections that do not exist
MISSING_MULTI = """
title: missing_multi
status: test
logsource:
    category: test
detection:
    sel:
        f: v
    condition:
        - sel
        - all of filter_*
"""


def contribution(rule_yaml, n_conditions):
    """Return (number of queries, number of error records) the rule contributes at position 2 of 3."""
    backend = TextQueryTestBackend(collect_errors=True)
    result = backend.convert(SigmaCollection.from_yaml("---".join([GOOD1, rule_yaml, GOOD2])))
    assert result[0] == 'mappedA="v1"' and result[-1] == 'fieldB="v2"', result
    queries = len(result) - 2
    records = [e for r, e in backend.errors if r.title != "good1" and r.title != "good2"]
    return queries, len(records)


violations = []
for name, src, n_cond in (("missing_single", MISSING_SINGLE, 1), ("missing_multi", MISSING_MULTI, 2)):
    queries, records = contribution(src, n_cond)
    accounted = (queries == n_cond and records == 0) or (queries == 0 and records == 1)
    if not accounted:
        violations.append((name, n_cond, queries, records))

# without error collection the first failing rule has to raise; a rule that yields nothing must not
# pass silently either
backend = TextQueryTestBackend()
try:
    res = backend.convert(SigmaCollection.from_yaml("---".join([GOOD1, MISSING_SINGLE, GOOD2])))
    if len(res) != 3:
        violations.append(("missing_single (no collection)", 1, len(res) - 2, "no exception raised"))
except Exception:
    pass

if violations:
    print(
        "DEFECT: rule whose condition selects no existing detection vanishes silently "
        "(rule, conditions, queries, error records): " + repr(violations)
    )
    sys.exit(0)
print("ok: every condition is accounted for by a query or the rule by exactly one error record")
sys.exit(1)
