"""C02 / d2: selector patterns cannot contain '-' although detection names can.

Identifiers are Word(alphanums + "_-") (hyphenated names are used by the library's own tests,
e.g. 'field-value'), but the selector pattern is Word(alphanums + "*_").  So a selector that
spells a hyphenated name or name prefix is not read as a whole word: the pattern token is cut
at the '-' and the rest is a syntax error.
"""
import itertools
import sys

from sigma.conditions import (
    ConditionAND,
    ConditionFieldEqualsValueExpression,
    ConditionNOT,
    ConditionOR,
)
from sigma.exceptions import SigmaConditionError
from sigma.rule import SigmaDetections

NAMES = ["sel-1", "sel-2", "filter-main", "other"]
DETS = {n: {f"f{i}": "v"} for i, n in enumerate(NAMES)}
F2N = {f"f{i}": n for i, n in enumerate(NAMES)}


def ev(node, asg):
    if isinstance(node, ConditionFieldEqualsValueExpression):
        return asg[F2N[node.field]]
    if isinstance(node, ConditionNOT):
        return not ev(node.args[0], asg)
    if isinstance(node, ConditionAND):
        return all([ev(x, asg) for x in node.args])
    if isinstance(node, ConditionOR):
        return any([ev(x, asg) for x in node.args])
    raise TypeError(repr(node))


def table(cond):
    tree = SigmaDetections.from_dict({**DETS, "condition": cond}).parsed_condition[0].parsed
    return [
        ev(tree, dict(zip(NAMES, bits)))
        for bits in itertools.product([False, True], repeat=len(NAMES))
    ]


# sanity: the hyphenated names themselves are accepted as identifiers
table("sel-1 or sel-2 and not filter-main")

# selector spelling -> equivalent explicit spelling
CASES = {
    "1 of sel-*": "sel-1 or sel-2",
    "all of sel-*": "sel-1 and sel-2",
    "other and not 1 of filter-*": "other and not filter-main",
    "1 of *-main": "filter-main",
    "any of sel-1": "sel-1",
    "1 of s*-2": "sel-2",
}
problems = []
for sel, explicit in CASES.items():
    try:
        if table(sel) != table(explicit):
            problems.append(f"{sel!r} differs from {explicit!r}")
    except SigmaConditionError as e:
        problems.append(f"{sel!r} -> SigmaConditionError({e})")

if problems:
    print("DEFECT: selector pattern containing '-' is not read as one word: " + " | ".join(problems))
    sys.exit(0)
print("OK: hyphenated selector patterns resolve to the matching detections")
sys.exit(1)
