"""C13 / d2: field name condition 'processing_item_applied' (not negated) never holds for the field of a
detection item, although the field was renamed by the referenced item."""
import sys
import warnings

warnings.simplefilter("ignore")

from sigma.collection import SigmaCollection
from sigma.processing.pipeline import ProcessingPipeline
from sigma.backends.test import TextQueryTestBackend

RULE = """
title: Field renamed by an earlier item
status: test
logsource:
    category: test
detection:
    sel:
        src: x
        other: y
    condition: sel
# (the hunt's original rule also had `fields: [src, other]`: with the list the tracking entry is deleted before the detection
#  item is reached - that remainder is the recorded finding C13.R10, witness known_findings/C13_field_tracking_deleted.py)
"""

PIPELINE = """
transformations:
  - id: rename
    type: field_name_mapping
    mapping:
      src: renamed
  # marker: only fields that were renamed by 'rename' get the prefix
  - id: tag
    type: field_name_prefix
    prefix: done_
    field_name_conditions:
      - type: processing_item_applied
        processing_item_id: rename
"""

pipeline = ProcessingPipeline.from_yaml(PIPELINE)
backend = TextQueryTestBackend(pipeline)
rule = SigmaCollection.from_yaml(RULE)
query = backend.convert(rule)[0]
fields = rule.rules[0].fields

print("query :", query)
print("fields:", fields)

expected_query = 'done_renamed="x" and other="y"'
expected_fields = []

if fields != expected_fields:
    print("note: field list result differs from expectation as well:", fields)

if query == expected_query:
    print("OK: marker applied exactly to the field processed by 'rename'")
    sys.exit(1)
if query == 'renamed="x" and other="y"':
    print(
        "DEFECT: field 'renamed' of the detection item was produced by item 'rename', but the item gated on "
        f"processing_item_applied(rename) is not applied to it (query {query!r}, expected {expected_query!r}; "
        f"the same field in the rule's field list became {fields[0]!r})"
    )
    sys.exit(0)
print("DEFECT: unexpected query", repr(query), "expected", repr(expected_query))
sys.exit(0)
