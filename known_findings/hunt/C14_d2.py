"""C14 / d2: a rule that is emitted AND referenced by a correlation rule (generate: true) skips
query post-processing (and the format's per-query finalisation).

Property: query post-processing runs on EVERY emitted query, in item order.
"""
import sys
from sigma.backends.test import TextQueryTestBackend
from sigma.collection import SigmaCollection
from sigma.processing.pipeline import ProcessingPipeline

BASE = """
title: base
name: base
logsource: {category: test}
detection:
  sel: {fieldA: a}
  condition: sel
"""
CORR = """
title: corr
correlation:
  type: event_count
  rules: [base]
  group-by: [user]
  timespan: 5m
  condition: {gte: 10}
  generate: true
"""
PIPE = """
postprocessing:
- type: embed
  prefix: "<<"
  suffix: ">>"
"""

def pipe():
    return ProcessingPipeline.from_yaml(PIPE)

# the base rule alone: post-processed
alone = TextQueryTestBackend(pipe()).convert(SigmaCollection.from_yaml(BASE))
assert alone == ['<<mappedA="a">>'], alone

out = TextQueryTestBackend(pipe()).convert(SigmaCollection.from_yaml(BASE + "---" + CORR))
out_test = TextQueryTestBackend(pipe()).convert(SigmaCollection.from_yaml(BASE + "---" + CORR), "test")

# two queries are emitted: the base rule (generate: true) and the correlation query
assert len(out) == 2 and len(out_test) == 2, (out, out_test)
not_post = [q for q in out if not (q.startswith("<<") and q.endswith(">>"))]
not_post_test = [q for q in out_test if not (q.startswith("<<[ ") and q.endswith(" ]>>"))]
if not_post or not_post_test:
    print(
        "DEFECT: emitted query of a rule referenced with generate:true is not post-processed: "
        f"default format emits {out[0]!r} (alone: {alone[0]!r}); test format emits {out_test[0]!r} (expected '<<[ mappedA=\"a\" ]>>')"
    )
    sys.exit(0)
print("OK: every emitted query was post-processed")
sys.exit(1)
