"""
C17 / d4: in regular-expression position an ESCAPED percent pair (literal text, written \\%lit\\%)
is turned into a placeholder as soon as a transformation hands another placeholder of the same
value back (include/exclude). The next transformation then replaces the literal text, or the
rule fails naming a "placeholder" the rule never contained.

Rule:      f|re|expand: '\\%lit\\%%a%%b%'      (literal '%lit%', then placeholders a and b)
Pipeline:  value_placeholders include=[a]  ->  value_placeholders        vars a=[x] b=[1] lit=[BAD]
Expected:  f=/%lit%x1/    (what ONE unrestricted value_placeholders item yields, and what the same
                           value yields in string position with the two-step pipeline)
Observed:  f=/BADx1/      (without variable 'lit': SigmaValueError "variable 'lit' doesn't exists")
"""
import re
import sys

from sigma.rule import SigmaRule
from sigma.backends.test import TextQueryTestBackend
from sigma.processing.pipeline import ProcessingPipeline
from sigma.exceptions import SigmaError

VALUE = r"\%lit\%%a%%b%"


def convert(key: str, transformations: list, vars: dict):
    try:
        rule = SigmaRule.from_dict(
            {
                "title": "t",
                "logsource": {"category": "test"},
                "detection": {"sel": {key: VALUE}, "condition": "sel"},
            }
        )
        pipeline = ProcessingPipeline.from_dict({"vars": vars, "transformations": transformations})
        return TextQueryTestBackend(pipeline).convert_rule(rule)[0]
    except SigmaError as e:
        return e


one_step = [{"type": "value_placeholders"}]
two_steps = [{"type": "value_placeholders", "include": ["a"]}, {"type": "value_placeholders"}]
two_steps_excl = [{"type": "value_placeholders", "exclude": ["b"]}, {"type": "wildcard_placeholders", "include": ["b"]}]
V = {"a": ["x"], "b": ["1"]}
V_lit = {"a": ["x"], "b": ["1"], "lit": ["BAD"]}

ref_re = convert("f|re|expand", one_step, V_lit)
ref_str = convert("f|expand", two_steps, V_lit)
print("regex, one step            :", repr(ref_re))
print("string, two steps          :", repr(ref_str))
assert ref_re == "f=/%lit%x1/", ref_re
assert ref_str == 'f="%lit%x1"', ref_str

bad = []

res = convert("f|re|expand", two_steps, V_lit)
print("regex, two steps, lit=[BAD]:", repr(res))
if isinstance(res, SigmaError):
    bad.append(f"two-step pipeline fails: {type(res).__name__}: {res}")
else:
    rx = re.fullmatch(r"f=/(.*)/", res).group(1)
    if not re.fullmatch(rx, "%lit%x1") or re.fullmatch(rx, "BADx1"):
        bad.append(f"escaped literal '%lit%' was replaced like a placeholder: {res!r} instead of {ref_re!r}")

res = convert("f|re|expand", two_steps, V)
print("regex, two steps, no lit   :", repr(res))
if isinstance(res, SigmaError):
    bad.append(
        f"rule with placeholders a, b (both configured) fails for the literal text: {type(res).__name__}: {res}"
    )
elif res != ref_re:
    bad.append(f"two-step result {res!r} differs from {ref_re!r}")

res = convert("f|re|expand", two_steps_excl, V)
print("regex, exclude b + wildcard include b:", repr(res))
if isinstance(res, SigmaError) and "lit" in str(res):
    bad.append(f"exclude/include pipeline refuses the literal text as placeholder: {type(res).__name__}: {res}")

if bad:
    print("DEFECT: escaped \\%lit\\% in a regular expression becomes a placeholder after a partial (include/exclude) replacement: " + " | ".join(bad))
    sys.exit(0)
print("escaped percent signs stay literal in regular expressions")
sys.exit(1)
