"""C09 witness d5: a rule referenced with `generate: true` emits a query of its own - but an unfinished one.

The property: a rule referenced only with generation enabled emits its own query just like an
unreferenced rule.  convert_rule() however skips finalize_query() for every rule that has a
backreference, and then returns that raw sub-query as the rule's own output.  Query postprocessing of
the pipeline and the per-query finalisation of the output format are missing from exactly those
queries, while the same rule without a referencing correlation (and every other query of the same
conversion run) gets them.
"""
import sys

from sigma.backends.test import TextQueryTestBackend
from sigma.collection import SigmaCollection
from sigma.processing.pipeline import ProcessingPipeline

PIPELINE = {
    "name": "embed",
    "priority": 10,
    "postprocessing": [{"type": "embed", "prefix": "search(", "suffix": ")"}],
}
P1 = """
title: P1
name: p1
logsource: {category: test}
detection:
    sel: {f: v1}
    condition: sel
"""
P2 = """
title: P2
name: p2
logsource: {category: test}
detection:
    sel: {f: v2}
    condition: sel
"""
C1 = """
title: C1
correlation:
    type: event_count
    rules: [p1]
    generate: true
    group-by: [user]
    timespan: 5m
    condition: {gte: 2}
"""


def convert(docs, output_format=None):
    backend = TextQueryTestBackend(ProcessingPipeline.from_dict(PIPELINE))
    return backend.convert(SigmaCollection.from_yaml("---".join(docs)), output_format)


problems = []
for fmt in (None, "test"):
    alone = convert([P1, P2], fmt)  # P1 unreferenced
    own_query_unreferenced = alone[0]
    for docs in ([P1, P2, C1], [C1, P2, P1]):
        res = convert(docs, fmt)
        print(f"format={fmt}: {res}")
        assert len(res) == 3, res  # P1 (generate: true), P2, C1
        p1_queries = [q for q in res if "v1" in q and "aggregate" not in q]
        assert len(p1_queries) == 1
        if p1_queries[0] != own_query_unreferenced:
            problems.append(
                f"format={fmt}: P1 emits {p1_queries[0]!r} when referenced with generate: true, "
                f"{own_query_unreferenced!r} when unreferenced"
            )

if problems:
    print("DEFECT: " + problems[0] + f" ({len(problems)} cases)")
    sys.exit(0)
print("OK: the own query of a rule referenced with generate: true is finalised like any other output")
sys.exit(1)
