"""C15 / d1: Backend.convert_rule() keeps the processing pipeline that was built for the output
format of the FIRST conversion. A probe rule converted with another output_format is processed
with the wrong output-format pipeline, i.e. its query depends on what was converted before."""
import sys
from sigma.backends.test import TextQueryTestBackend
from sigma.collection import SigmaCollection
from sigma.rule import SigmaRule

EARLIER = """
title: earlier rule
logsource: {category: test}
detection:
  sel: {fieldB: x}
  condition: sel
"""
PROBE = """
title: probe
logsource: {category: test}
detection:
  sel: {fieldC: x}
  condition: sel
"""

def probe(backend, fmt):
    return backend.convert_rule(SigmaRule.from_yaml(PROBE), fmt)

# Oracle: fresh backend. Output format "test" of TextQueryTestBackend has an output format
# pipeline that maps fieldC -> mappedC, format "default" has none.
fresh_test = probe(TextQueryTestBackend(), "test")          # ['[ mappedC="x" ]']
fresh_default = probe(TextQueryTestBackend(), "default")    # ['fieldC="x"']

# History 1: one single rule converted in the default format before.
b1 = TextQueryTestBackend()
b1.convert_rule(SigmaRule.from_yaml(EARLIER))
after_default = probe(b1, "test")

# History 2: a collection converted in format "test" before, probe converted in default format.
b2 = TextQueryTestBackend()
b2.convert(SigmaCollection.from_yaml(EARLIER), "test")
after_test = probe(b2, "default")

print("fresh  test   :", fresh_test)
print("after default :", after_default)
print("fresh  default:", fresh_default)
print("after test    :", after_test)

if after_default != fresh_test or after_test != fresh_default:
    print(
        "DEFECT: convert_rule(probe, output_format) uses the output-format pipeline of the earlier "
        f"conversion: {after_default} instead of {fresh_test}; {after_test} instead of {fresh_default}"
    )
    sys.exit(0)
sys.exit(1)
