# C07 / d2: rule references of the wrong type (list / null / float inside `rules`) are never
# validated by SigmaCorrelationRule.from_dict and escape later as TypeError / AttributeError
from sigma.correlations import SigmaCorrelationRule
from sigma.collection import SigmaCollection
import sys
from sigma.exceptions import SigmaError


def probe(label, loader):
    """Returns list of violation strings for one document/loader."""
    problems = []
    strict_exc = None
    try:
        loader(False)
    except SigmaError as e:
        strict_exc = e
    except Exception as e:  # noqa
        problems.append(f"{label}: strict loading raised {type(e).__name__}({e}) instead of a SigmaError")
        strict_exc = e
    try:
        obj = loader(True)
    except Exception as e:  # noqa
        problems.append(f"{label}: collect_errors=True raised {type(e).__name__}({e})")
        return problems
    errors = list(obj.errors)
    if (strict_exc is not None) != bool(errors):
        problems.append(f"{label}: strict raised {strict_exc!r} but collected errors are {errors!r}")
    elif errors and isinstance(strict_exc, SigmaError) and not (errors[0] == strict_exc):
        problems.append(f"{label}: first collected error {errors[0]!r} != strict error {strict_exc!r}")
    return problems


def finish(problems):
    if problems:
        print("DEFECT: " + " | ".join(problems))
        sys.exit(0)
    print("OK: library behaves as the property says")
    sys.exit(1)

# (1) temporal correlation with extended condition; the rules list is accidentally nested
TEMPORAL = """
title: Both
name: both
correlation:
    type: temporal
    rules:
        - [rule_a, rule_b]
    timespan: 5m
    condition: rule_a and rule_b
"""

# (2) plain event_count correlation inside a collection; one reference is null
COLLECTION = """
title: Base
name: rule_a
logsource:
    category: process_creation
detection:
    sel:
        Image: a.exe
    condition: sel
---
title: Many
name: many
correlation:
    type: event_count
    rules:
        - rule_a
        - ~
    group-by: [user]
    timespan: 5m
    condition:
        gte: 10
"""

problems = []
problems += probe(
    "temporal/extended, rules: [[rule_a, rule_b]]",
    lambda c: SigmaCorrelationRule.from_yaml(TEMPORAL, collect_errors=c),
)
problems += probe(
    "collection, rules: [rule_a, null]",
    lambda c: SigmaCollection.from_yaml(COLLECTION, collect_errors=c),
)
finish(problems)
