"""
query_expression_placeholders with an include filter that selects no placeholder of the rule is
not the identity: a string that mixes text and a placeholder the transformation was told NOT to
handle makes it raise, so a later transformation that would resolve the placeholder never runs.

Run: PYTHONPATH=/repo /venv/bin/python witness.py
exit 0 + "DEFECT: ..." -> property violated; exit 1 -> library behaves as the property demands.
"""
import sys
from sigma.collection import SigmaCollection
from sigma.processing.pipeline import ProcessingPipeline
from sigma.backends.test import TextQueryTestBackend

RULE = """
title: t
status: test
logsource:
    category: test
detection:
    sel:
        f|expand: 'x%var%'
        g|expand: '%list%'
    condition: sel
"""

QE = """
  - type: query_expression_placeholders
    include:
      - {name}
    expression: "{{field}} lookup {{id}}"
"""
WC = """
  - type: wildcard_placeholders
"""
HEAD = "name: p\npriority: 10\ntransformations:"


def convert(pipeline: str | None = None):
    p = ProcessingPipeline.from_yaml(pipeline) if pipeline else None
    try:
        return TextQueryTestBackend(p).convert(SigmaCollection.from_yaml(RULE))
    except Exception as e:  # noqa
        return f"{type(e).__name__}: {e}"


violations = []

# identity instance: the filter names a placeholder that does not occur in the rule at all
reference = convert(HEAD + WC)
chain = convert(HEAD + QE.format(name="does_not_occur") + WC)
print(f"wildcard_placeholders only                         : {reference}")
print(f"query_expression(include=does_not_occur) + wildcard: {chain}")
if chain != reference:
    violations.append(f"filter matching nothing is not the identity ({chain})")

# the filter selects only %list%; %var% is explicitly left to the following transformation
chain2 = convert(HEAD + QE.format(name="list") + WC)
print(f"query_expression(include=list) + wildcard          : {chain2}")
if not (isinstance(chain2, list) and "lookup list" in chain2[0] and 'f startswith "x"' in chain2[0]):
    violations.append(f"placeholder excluded by the filter is refused instead of passed through ({chain2})")

if violations:
    print("DEFECT: query_expression_placeholders ignores its include/exclude filter for mixed strings: " + "; ".join(violations))
    sys.exit(0)
sys.exit(1)
