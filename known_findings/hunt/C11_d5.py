"""C11 witness: the random prefix is drawn without looking at the rule's detection names. For the
draw that coincides with a rule detection called `_filt_<draw>_<name>` the filter's detection
overwrites the rule's detection, i.e. the rule's own condition is evaluated on the filter's detection.
The draw is made reproducible with random.seed()."""
import random
import string
import sys
from sigma.collection import SigmaCollection
from sigma.backends.test import TextQueryTestBackend

SEED = 20240925

def convert(y):
    random.seed(SEED)
    return TextQueryTestBackend().convert(SigmaCollection.from_yaml(y))

# what the library is going to draw for the first filter application after seeding
random.seed(SEED)
drawn = "".join(random.choices(string.ascii_lowercase, k=10))
det_name = f"_filt_{drawn}_flt"

RULE = f"""
title: Rule
name: r1
logsource:
    product: windows
detection:
    {det_name}:
        ra: v
    condition: {det_name}
"""
FILTER = """
title: Filter
logsource:
    product: windows
filter:
    rules: any
    flt:
        ff: v
    condition: flt
"""

plain = convert(RULE)
assert plain == ['ra="v"'], plain
filtered = convert(RULE + "---" + FILTER)
print("rule detection name:", det_name)
print("without filter:", plain)
print("with filter   :", filtered)
if filtered == ['ra="v" and ff="v"']:
    print("OK")
    sys.exit(1)
if 'ra="v"' not in filtered[0]:
    print("DEFECT: for the draw %r the filter's detection overwrote the rule's detection %r: %s (expected ra=\"v\" and ff=\"v\")"
          % (drawn, det_name, filtered[0]))
    sys.exit(0)
print("unexpected result (seeded draw not reproduced?)", filtered)
sys.exit(1)
