"""
C18 / d4: a backend WITH native CIDR support does not receive the network below a NOT when
convert_not_as_not_eq is set and not_cidr_expression is left at its default (None).

The negation context replaces cidr_expression by not_cidr_expression (None);
convert_condition_field_eq_val_cidr reads None as "backend has no native support" and silently
falls back to the wildcard expansion. The native expression is never used, the backend gets string
prefix matches instead of network/prefixlen (and inherits every weakness of the expansion).
"""
import sys

from sigma.backends.test import TextQueryTestBackend
from sigma.collection import SigmaCollection
from sigma.exceptions import SigmaError
from sigma.processing.pipeline import ProcessingPipeline


class NativeNotEqBackend(TextQueryTestBackend):
    # native support, inherited: cidr_expression = "cidrmatch('{field}', \"{value}\")"
    convert_or_as_in = False
    convert_not_as_not_eq = True
    not_eq_token = "!="
    not_eq_expression = "{field}!={value}"
    not_startswith_expression = "{field} notstartswith {value}"
    # not_cidr_expression stays None (default of TextQueryBackend)


def convert(cidr: str, condition: str):
    rule = f"""
title: negated native CIDR
logsource:
    category: test
detection:
    sel:
        ip|cidr: {cidr}
    condition: {condition}
"""
    return NativeNotEqBackend(ProcessingPipeline()).convert(SigmaCollection.from_yaml(rule))


assert convert("10.0.0.0/7", "sel") == ["cidrmatch('ip', \"10.0.0.0/7\")"]  # native when not negated

defects = []
for cidr in ("10.0.0.0/7", "10.0.0.0/8", "2001:db8::/33"):
    try:
        queries = convert(cidr, "not sel")
    except (SigmaError, NotImplementedError) as e:
        # refusing (as the backend does for a regular expression without not_re_expression) is acceptable
        print(f"not {cidr}: refused with {type(e).__name__} - fine")
        continue
    print(f"not {cidr} ->", queries)
    if not any(cidr in q for q in queries):
        defects.append(f"not {cidr} -> {queries[0]!r}")

if defects:
    print(
        "DEFECT: backend with native cidr_expression does not receive the network below NOT "
        "(convert_not_as_not_eq, not_cidr_expression unset), silent wildcard expansion instead: "
        + "; ".join(defects)
    )
    sys.exit(0)
print("native backend receives the network also below NOT (or the conversion is refused)")
sys.exit(1)
