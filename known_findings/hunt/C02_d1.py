"""C02 / d1: a selector whose pattern matches no detection has no consistent boolean value.

Property: a selector stands for the OR (1 of / any of) resp. AND (all of) of *exactly* the
detections whose names match.  For an empty match set that is OR() = False resp. AND() = True
(or, at the very least, a SigmaConditionError).  The library instead leaves a `None` hole in
the condition tree which every consumer silently drops, so that the empty selector acts as
True below AND, as False below OR, and X and `not X` become equivalent.
"""
import itertools
import sys

from sigma.conditions import (
    ConditionAND,
    ConditionFieldEqualsValueExpression,
    ConditionNOT,
    ConditionOR,
)
from sigma.exceptions import SigmaError
from sigma.rule import SigmaDetections, SigmaRule
from sigma.backends.test import TextQueryTestBackend

NAMES = ["a", "b"]
DETS = {"a": {"fa": "v"}, "b": {"fb": "v"}}
F2N = {"fa": "a", "fb": "b"}


class Hole(Exception):
    pass


def ev(node, asg):
    if node is None:
        raise Hole()
    if isinstance(node, ConditionFieldEqualsValueExpression):
        return asg[F2N[node.field]]
    if isinstance(node, ConditionNOT):
        return not ev(node.args[0], asg)
    if isinstance(node, ConditionAND):
        return all([ev(x, asg) for x in node.args])
    if isinstance(node, ConditionOR):
        return any([ev(x, asg) for x in node.args])
    raise TypeError(node)


# condition -> reference function (empty OR = False, empty AND = True)
CASES = {
    "a and 1 of x*": lambda a, b: a and False,
    "a or all of x*": lambda a, b: a or True,
    "a or not 1 of x*": lambda a, b: a or (not False),
    "not 1 of x*": lambda a, b: True,
    "b and (a or any of x*)": lambda a, b: b and a,
}

problems = []
for cond, ref in CASES.items():
    try:
        tree = SigmaDetections.from_dict({**DETS, "condition": cond}).parsed_condition[0].parsed
    except SigmaError:
        continue  # rejecting an unmatched selector is an acceptable reading
    for bits in itertools.product([False, True], repeat=2):
        asg = dict(zip(NAMES, bits))
        try:
            got = ev(tree, asg)
        except Hole:
            problems.append(f"{cond!r}: tree contains a None operand")
            break
        if got != ref(*bits):
            problems.append(f"{cond!r}: tree gives {got} for {asg}, grammar gives {ref(*bits)}")
            break


# Behavioural consequence at the backend: X and not-X are converted to the same query.
def conv(cond):
    r = SigmaRule.from_dict(
        {"title": "t", "logsource": {"category": "test"}, "detection": {**DETS, "condition": cond}}
    )
    return TextQueryTestBackend().convert_rule(r)


try:
    q1 = conv("a or 1 of x*")
    q2 = conv("a or not 1 of x*")
    q3 = conv("a and 1 of x*")
    if q1 == q2:
        problems.append(f"'a or 1 of x*' and 'a or not 1 of x*' both convert to {q1}")
    if q3 == conv("a"):
        problems.append(f"'a and 1 of x*' (unsatisfiable) converts to {q3}")
except SigmaError:
    pass

if problems:
    print("DEFECT: selector matching no detection yields None operand / inconsistent truth value: "
          + " | ".join(problems))
    sys.exit(0)
print("OK: unmatched selectors are rejected or evaluate as empty OR/AND")
sys.exit(1)
