"""wide/utf16be/utf16 with the single character wildcard '?': one character is two bytes in UTF-16."""
import re, sys
from sigma.rule import SigmaDetectionItem
from sigma.types import SigmaString, SpecialChars
from sigma.exceptions import SigmaError

def to_regex(value: SigmaString) -> "re.Pattern[str]":
    # Sigma semantics of a string value: '?' is exactly one character, '*' any number of characters
    parts = []
    for part in value.s:
        if part is SpecialChars.WILDCARD_SINGLE:
            parts.append(".")
        elif part is SpecialChars.WILDCARD_MULTI:
            parts.append(".*")
        else:
            parts.append(re.escape(part))
    return re.compile("".join(parts), re.S)

def as_field_text(data: bytes) -> str:
    # the library represents encoded bytes as the string whose UTF-8 form they are; for ASCII
    # payloads that is one character per byte
    return data.decode("utf-8")

pattern = "po?ershell"
defects = []
for mod, codec in (("wide", "utf-16le"), ("utf16be", "utf-16be")):
    try:
        value = SigmaDetectionItem.from_mapping(f"f|{mod}", pattern).value[0]
    except SigmaError as e:
        print(f"{mod}: rejected with {type(e).__name__} - allowed")
        continue
    rx = to_regex(value)
    # sanity: the unencoded pattern matches all the candidates
    plain_rx = to_regex(SigmaDetectionItem.from_mapping("f", pattern).value[0])
    misses = []
    for c in "wW0":
        text = f"po{c}ershell"
        assert plain_rx.fullmatch(text)
        if not rx.fullmatch(as_field_text(text.encode(codec))):
            misses.append(text)
    print(mod, repr(value), "misses", misses)
    if misses:
        defects.append(
            f"f|{mod}: '{pattern}' gives {value!r}; it does not match the {codec} form of {misses} "
            f"(the '?' stands for one byte, the character it replaces takes two)"
        )

if defects:
    print("DEFECT: " + defects[0])
    for d in defects[1:]:
        print("  also: " + d)
    sys.exit(0)
sys.exit(1)
