"""
C17 / d2: a placeholder followed by the base64 / base64offset modifier is encoded as the raw
text '%name%'. The placeholder object is gone before any pipeline runs, so it is neither replaced
by the configured values nor refused: the query silently contains base64('%a%').

Rule:      f|expand|base64: 'p=%a%'      vars: a = [x]
Expected:  f="cD14"  (base64 of 'p=x')  or a Sigma error naming placeholder 'a'
Observed:  f="cD0lYSU="  (base64 of the raw text 'p=%a%'), with and without pipeline
"""
import sys
from base64 import b64encode

from sigma.rule import SigmaRule
from sigma.backends.test import TextQueryTestBackend
from sigma.processing.pipeline import ProcessingPipeline
from sigma.exceptions import SigmaError


def convert(detection: dict, with_pipeline: bool):
    pipeline = (
        ProcessingPipeline.from_dict(
            {"vars": {"a": ["x"]}, "transformations": [{"type": "value_placeholders"}]}
        )
        if with_pipeline
        else None
    )
    try:
        rule = SigmaRule.from_dict(
            {"title": "t", "logsource": {"category": "test"}, "detection": detection}
        )
        return TextQueryTestBackend(pipeline).convert_rule(rule)[0]
    except SigmaError as e:
        return e


raw_b64 = b64encode(b"p=%a%").decode()  # what must never appear
good_b64 = b64encode(b"p=x").decode()  # what the pipeline configures

bad = []
for with_pipeline in (True, False):
    res = convert({"sel": {"f|expand|base64": "p=%a%"}, "condition": "sel"}, with_pipeline)
    print(f"pipeline={with_pipeline}: {res!r}")
    if isinstance(res, SigmaError):
        continue  # refusing the rule is allowed by the property
    if raw_b64 in res or good_b64 not in res:
        bad.append(
            f"base64 {'with value_placeholders a=[x]' if with_pipeline else 'without pipeline'}: {res!r} "
            f"contains base64 of raw text 'p=%a%' instead of {good_b64!r} or a placeholder error"
        )

# base64offset: same mechanism, three encoded variants of the raw text
res = convert({"sel": {"f|expand|base64offset": "p=%a%"}, "condition": "sel"}, True)
print(f"base64offset: {res!r}")
if not isinstance(res, SigmaError):
    # the offset-0 variant (cut to complete groups) is enough to recognise the raw text
    if raw_b64[:6] in res:
        bad.append(f"base64offset: {res!r} encodes the raw text 'p=%a%'")

if bad:
    print("DEFECT: unresolved placeholder is emitted base64-encoded as raw '%a%' text: " + " | ".join(bad))
    sys.exit(0)
print("placeholder before base64 is expanded or refused")
sys.exit(1)
