"""C09 witness d2: rule references in correlation field aliases are never resolved.

The same rule may be referred to by name or by id.  The correlation rule below lists its rules by
name and maps the alias fields by id (both identify the same two rules).  The property demands that
references resolve to the rule whatever notation is used, and that a reference to a missing rule is
reported as a Sigma error at load time.  Instead the alias keys are only compared as strings with
the entries of `rules`: the field normalisation silently vanishes from the query (grouping by a field
`ip` that is never set), and an alias that refers to a rule that does not exist is accepted silently.
"""
import sys

from sigma.backends.test import TextQueryTestBackend
from sigma.collection import SigmaCollection
from sigma.exceptions import SigmaError

RULES = """
title: P1
name: p1
id: 00000000-0000-0000-0000-000000000001
logsource: {category: test}
detection:
    sel: {f: v1}
    condition: sel
---
title: P2
name: p2
id: 00000000-0000-0000-0000-000000000002
logsource: {category: test}
detection:
    sel: {f: v2}
    condition: sel
---
"""
CORR = """
title: C1
correlation:
    type: temporal
    rules: [%s, %s]
    aliases:
        ip:
            %s: src_ip
            %s: dst_ip
    group-by: [ip]
    timespan: 5m
"""
N1, N2 = "p1", "p2"
I1, I2 = "00000000-0000-0000-0000-000000000001", "00000000-0000-0000-0000-000000000002"


def convert(r1, r2, a1, a2):
    col = SigmaCollection.from_yaml(RULES + CORR % (r1, r2, a1, a2))
    return TextQueryTestBackend().convert(col)


reference = convert(N1, N2, N1, N2)  # everything by name
assert "set ip=src_ip" in reference[0] and "set ip=dst_ip" in reference[0], reference
print("by name / by name:\n" + reference[0] + "\n")

problems = []
for label, args in {
    "rules by name, aliases by id": (N1, N2, I1, I2),
    "rules by id, aliases by name": (I1, I2, N1, N2),
}.items():
    try:
        q = convert(*args)
    except SigmaError as e:  # refusing the notation outright would at least not be silent
        print(label, "-> rejected:", type(e).__name__)
        continue
    print(label + ":\n" + q[0] + "\n")
    if q != reference:
        problems.append(f"{label}: field normalisation dropped from query")

# alias refers to a rule that is not in the rule set
try:
    q = convert(N1, N2, N1, "no_such_rule")
    print("alias for missing rule:\n" + q[0] + "\n")
    problems.append("alias reference to missing rule 'no_such_rule' accepted without error")
except SigmaError as e:
    print("alias for missing rule -> ", type(e).__name__)

if problems:
    print("DEFECT: " + "; ".join(problems))
    sys.exit(0)
print("OK: alias rule references resolve like the references in 'rules'")
sys.exit(1)
