"""C13: the tracking entry of a field name is deleted when the name is mapped; the same name in another place of the rule
(here: field list first, detection item afterwards) is then judged without its history. Exit 0 + DEFECT while present."""
import sys
from sigma.collection import SigmaCollection
from sigma.processing.pipeline import ProcessingPipeline
from sigma.backends.test import TextQueryTestBackend

RULE = """
title: t
logsource: {category: test}
detection:
    sel: {src: x, other: y}
    condition: sel
fields: [src, other]
"""
PIPELINE = """
transformations:
  - id: rename
    type: field_name_mapping
    mapping: {src: renamed}
  - id: tag
    type: field_name_prefix
    prefix: done_
    field_name_conditions:
      - type: processing_item_applied
        processing_item_id: rename
"""
c = SigmaCollection.from_yaml(RULE)
q = TextQueryTestBackend(ProcessingPipeline.from_yaml(PIPELINE)).convert(c)[0]
print(q, c.rules[0].fields)
if q != 'done_renamed="x" and other="y"':
    print("DEFECT: the field list entry became", c.rules[0].fields[0], "but the detection item field of the same name was not prefixed")
    sys.exit(0)
sys.exit(1)
