# Witness for the C01 defects repaired in /repo (in-list folding of case-sensitive values, missing
# grouping of implicit ORs from CIDR expansion, NOT over a value that converts into an OR).
from sigma.collection import SigmaCollection
from sigma.backends.test import TextQueryTestBackend
def conv(det, cond="sel", cls=TextQueryTestBackend):
    r = "title: t\nlogsource: {category: x}\ndetection:\n" + det + f"\n  condition: {cond}\n"
    return cls().convert(SigmaCollection.from_yaml(r))[0]
class NoCidr(TextQueryTestBackend):
    cidr_expression = None
a = conv("  sel:\n    f|cased: [Aa, Bb]")
print(a); assert " in (" not in a, "case-sensitive values must not be folded into the case-insensitive in-list"
b = conv("  sel:\n    a: 1\n    f|cidr: 192.168.0.0/23", cls=NoCidr)  # in-list: no grouping needed
print(b)
c = conv("  sel:\n    f|windash: '-x'", cond="not sel")
print(c); assert c.startswith("not ("), "NOT over an expanded value must be grouped"
class NoCidrNoIn(TextQueryTestBackend):
    cidr_expression = None
    convert_or_as_in = False
d = conv("  sel:\n    a: 1\n    f|cidr: 192.168.0.0/23", cls=NoCidrNoIn)
print(d); assert "and (" in d, "the OR of the expanded CIDR patterns must be grouped under the AND"
e = conv("  sel:\n    f|cidr: 192.168.0.0/23", cond="not sel", cls=NoCidrNoIn)
print(e); assert e.startswith("not ("), e
