# Witness inputs for the C07 defects: each document must load with a Sigma error (strict mode) and must not
# raise at all in collecting mode.  On the pinned snapshot every one of them raised a non-Sigma exception
# or raised in collecting mode.
import sys
from sigma.rule import SigmaRule
from sigma.correlations import SigmaCorrelationRule
from sigma.filters import SigmaFilter
from sigma.collection import SigmaCollection
from sigma.exceptions import SigmaError

base = {"title": "t", "logsource": {"category": "x"}, "detection": {"sel": {"a": 1}, "condition": "sel"}}
corr = {"title": "c", "correlation": {"type": "event_count", "rules": ["r"], "group-by": ["x"], "timespan": "5m", "condition": {"gte": 2}}}
flt = {"title": "f", "logsource": {"category": "x"}, "filter": {"rules": "any", "sel": {"a": 1}, "condition": "not sel"}}
def mut(d, path, v):
    import copy
    d = copy.deepcopy(d); cur = d
    for k in path[:-1]: cur = cur[k]
    if v is KeyError: del cur[path[-1]]
    else: cur[path[-1]] = v
    return d
cases = [
    ("rule: int id", SigmaRule, mut(base, ["id"], 5)),
    ("rule: list id", SigmaRule, mut(base, ["id"], ["x"])),
    ("rule: int detection key", SigmaRule, mut(base, ["detection", "sel"], {1: "x"})),
    ("corr: correlation section is a string", SigmaCorrelationRule, mut(corr, ["correlation"], "foo")),
    ("corr: int type", SigmaCorrelationRule, mut(corr, ["correlation", "type"], 5)),
    ("corr: int timespan", SigmaCorrelationRule, mut(corr, ["correlation", "timespan"], 5)),
    ("corr: empty timespan", SigmaCorrelationRule, mut(corr, ["correlation", "timespan"], "")),
    ("corr: list count", SigmaCorrelationRule, mut(corr, ["correlation", "condition"], {"gte": [1]})),
    ("corr: two operators (collecting)", SigmaCorrelationRule, mut(corr, ["correlation", "condition"], {"gte": 1, "lt": 2})),
    ("corr: alias mapping not a dict (collecting)", SigmaCorrelationRule, mut(corr, ["correlation", "aliases"], {"a": "b"})),
    ("corr: no condition (collecting)", SigmaCorrelationRule, mut(corr, ["correlation", "condition"], KeyError)),
    ("filter: no logsource (collecting)", SigmaFilter, mut(flt, ["logsource"], KeyError)),
    ("filter: no filter section (collecting)", SigmaFilter, mut(flt, ["filter"], KeyError)),
    ("filter: filter section is a list", SigmaFilter, mut(flt, ["filter"], ["x"])),
]
bad = 0
for name, cls, doc in cases:
    for collect in (False, True):
        try:
            obj = cls.from_dict(doc, collect_errors=collect)
            ok = collect and obj.errors
            res = f"returned, {len(obj.errors)} error(s)"
        except SigmaError as e:
            ok = not collect
            res = f"raised {type(e).__name__}"
        except Exception as e:
            ok = False
            res = f"raised NON-SIGMA {type(e).__name__}: {e}"
        if not ok:
            bad += 1
            print(f"FAIL {name} collect_errors={collect}: {res}")
for name, docs in (("collection: empty document in stream", [None, base]), ("collection: scalar document", ["x", base]),
                   ("collection: global template vs scalar section", [{"action": "global", "detection": {"sel": {"a": 1}}}, mut(base, ["detection"], "x")])):
    for collect in (False, True):
        try:
            c = SigmaCollection.from_dicts(docs, collect_errors=collect)
            ok = collect and c.errors
            res = f"returned, {len(c.errors)} error(s)"
        except SigmaError as e:
            ok = not collect; res = f"raised {type(e).__name__}"
        except Exception as e:
            ok = False; res = f"raised NON-SIGMA {type(e).__name__}: {e}"
        if not ok:
            bad += 1
            print(f"FAIL {name} collect_errors={collect}: {res}")
print("failures:", bad)
sys.exit(1 if bad else 0)
