# witness for the recorded C06.R1 finding: 'taxonomy' is read but never written
# (pinned by tests/test_rule.py::test_sigmarule_to_dict, whose rule has taxonomy "test" and whose expected dict has none)
from sigma.rule import SigmaRule
from sigma.processing.pipeline import ProcessingPipeline, ProcessingItem
from sigma.processing.transformations import AddConditionTransformation
from sigma.processing.conditions import RuleAttributeCondition
from sigma.backends.test import TextQueryTestBackend

r = SigmaRule.from_yaml("title: t\ntaxonomy: ecs\nlogsource: {category: x}\ndetection:\n  sel:\n    a: 1\n  condition: sel\n")
d = r.to_dict()
assert "taxonomy" not in d
r2 = SigmaRule.from_dict(d)
assert r.taxonomy == "ecs" and r2.taxonomy == "sigma"


def pipeline():
    return ProcessingPipeline([ProcessingItem(AddConditionTransformation({"idx": "ecs"}),
                                              rule_conditions=[RuleAttributeCondition("taxonomy", "ecs")])])


q1 = TextQueryTestBackend(pipeline()).convert_rule(r)
q2 = TextQueryTestBackend(pipeline()).convert_rule(r2)
print(q1, q2)
assert q1 != q2  # the reloaded rule converts to another query under a pipeline that looks at the taxonomy
print("defect present")
