# witness for the recorded C07.R2 findings: consistency checks in SigmaCorrelationRule.__post_init__ raise
# even with collect_errors=True (the object cannot be constructed, so there is nothing to attach the error to)
from sigma.correlations import SigmaCorrelationRule
from sigma.exceptions import SigmaError
docs = {
 "value_count without field": {"title": "c", "correlation": {"type": "value_count", "rules": ["r"], "group-by": ["x"], "timespan": "5m", "condition": {"gte": 2}}},
 "rule defined but not referenced in extended condition": {"title": "c", "correlation": {"type": "temporal", "rules": ["a", "b"], "timespan": "5m", "condition": "a"}},
 "rule referenced in extended condition but not defined": {"title": "c", "correlation": {"type": "temporal", "rules": ["a"], "timespan": "5m", "condition": "a and b"}},
}
n = 0
for name, d in docs.items():
    try:
        r = SigmaCorrelationRule.from_dict(d, collect_errors=True)
        print(name, "-> returned with", len(r.errors), "errors")
    except SigmaError as e:
        n += 1
        print(name, "-> RAISED in collecting mode:", type(e).__name__)
assert n == 3
