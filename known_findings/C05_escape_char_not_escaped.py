# witness for the recorded C05.R1 finding: SigmaString.convert does not escape the escape character itself
# (pinned by tests/test_conversion_base.py::test_convert_value_str_startswith_trailing_backslash, which expects "foobar\")
from sigma.collection import SigmaCollection
from sigma.backends.test import TextQueryTestBackend
from sigma.types import SigmaString

r = "title: t\nlogsource: {category: x}\ndetection:\n  sel:\n    a: 'x\\'\n  condition: sel\n"
q = TextQueryTestBackend().convert(SigmaCollection.from_yaml(r))[0]
print(q)
assert q == 'a="x\\"'  # decoded with \" -> " the literal never ends
s = SigmaString("x\\\\*")  # backslash followed by a wildcard
assert s.s[0] == "x\\" and len(s.s) == 2
print(s.convert())
assert s.convert() == "x\\*"  # the target reads an escaped (literal) star
print("defect present")
