# witness for the recorded C05.R4 finding: escape_and_quote_field does not escape the escape string itself
from sigma.backends.test import TextQueryTestBackend


class B(TextQueryTestBackend):
    field_quote = "'"
    field_quote_pattern = None
    field_escape = "\\"
    field_escape_quote = True
    field_escape_pattern = None


q = B().escape_and_quote_field("a\\'b")
print(q)
assert q == "'a\\\\'b'"  # decodes to a\ followed by a bare quote that ends the name
print("defect present")
