# Witness for the C09 defect repaired in /repo: sorted() with the non-transitive partial order
# SigmaRuleBase.__lt__ did not put referenced rules first for every document order.
import itertools
from sigma.collection import SigmaCollection
from sigma.backends.test import TextQueryTestBackend

def plain(n):
    return f"title: {n}\nname: {n}\nlogsource: {{category: test}}\ndetection:\n  sel: {{f: {n}}}\n  condition: sel\n"
def corr(n, refs):
    return (f"title: {n}\nname: {n}\ncorrelation:\n  type: event_count\n  rules: [{', '.join(refs)}]\n"
            f"  group-by: [x]\n  timespan: 5m\n  condition: {{gte: 2}}\n")
docs = [plain("a"), plain("b"), plain("u"), corr("c1", ["a", "b"]), corr("c2", ["c1"])]
fails = 0
outs = set()
for perm in itertools.permutations(docs):
    try:
        out = TextQueryTestBackend().convert(SigmaCollection.from_yaml("---\n".join(perm)))
        outs.add(tuple(sorted(out)))
    except Exception as e:
        fails += 1
print("failing orders:", fails, "of 120; distinct result multisets:", len(outs))
assert fails == 0 and len(outs) == 1
