# Witness for the C20 defect in FieldMappingTracking.add_mapping (repaired): after two source fields were
# mapped to the same target and that target is mapped again, only the source field that happened to come
# last in set iteration order was kept in the reverse index.
from sigma.processing.tracking import FieldMappingTracking
t = FieldMappingTracking()
t.add_mapping("a", "x")
t.add_mapping("b", "x")
t.add_mapping("x", "y")
print(dict(t), dict(t.target_fields))
assert t.target_fields["y"] == {"a", "b", "x"} or t.target_fields["y"] >= {"a", "b"}, t.target_fields
