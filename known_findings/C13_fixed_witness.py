# Witness for the two C13 defects repaired in /repo.
from sigma.collection import SigmaCollection
from sigma.backends.test import TextQueryTestBackend
from sigma.processing.pipeline import ProcessingPipeline
rule = "title: t\nlogsource: {category: test}\ndetection:\n  sel: {a: x}\n  condition: sel\n"
def conv(p):
    return TextQueryTestBackend(ProcessingPipeline.from_yaml(p)).convert(SigmaCollection.from_yaml(rule))
# (1) gate asymmetry: a negation flag on an empty condition group
rule_level = conv("transformations:\n- type: field_name_prefix\n  prefix: 'p.'\n  rule_cond_not: true\n")
item_level = conv("transformations:\n- type: field_name_prefix\n  prefix: 'p.'\n  detection_item_cond_not: true\n")
field_level = conv("transformations:\n- type: field_name_prefix\n  prefix: 'p.'\n  field_name_cond_not: true\n")
print(rule_level, item_level, field_level)
assert rule_level == item_level == field_level, "an item without conditions in a group must apply whatever that group's negation flag"
# (2) applied-item tracking survives a one-to-many field mapping
p = """
transformations:
- id: first
  type: field_name_suffix
  suffix: ''
- type: field_name_mapping
  mapping: {a: [b, c]}
- type: field_name_prefix
  prefix: 'seen.'
  detection_item_conditions:
  - type: processing_item_applied
    processing_item_id: first
"""
out = conv(p)
print(out)
assert "seen.b" in out[0] and "seen.c" in out[0], "items applied before a one-to-many mapping must stay visible afterwards"
