# Witness for the two C08 defects repaired in /repo (commits 9fd3396 and 7bda4bd).
# On the pinned snapshot both parts raised out of Backend.convert(); on the repaired tree each failing
# rule contributes exactly one (rule, error) record and the other rule's query is unchanged.
from sigma.backends.test import TextQueryTestBackend
from sigma.collection import SigmaCollection

good = """
title: good
logsource: {category: test}
detection:
  sel: {a: 1}
  condition: sel
"""
unsupported = """
title: unsupported
logsource: {category: test}
detection:
  sel: {f|lt: 5}
  condition: sel
"""
class NoCompare(TextQueryTestBackend):
    compare_op_expression = None

b = NoCompare(collect_errors=True)
out = b.convert(SigmaCollection.from_yaml(unsupported + "---" + good))
print(out, [(r.title, type(e).__name__) for r, e in b.errors])
assert out == ["a=1"] and len(b.errors) == 1

corr = """
title: corr
correlation:
  type: event_count
  rules: [good_named]
  group-by: [x]
  timespan: 5m
  condition: {gte: 2}
"""
named = good.replace("title: good", "title: good\nname: good_named")
b = TextQueryTestBackend(collect_errors=True)
out = b.convert(SigmaCollection.from_yaml(named + "---" + corr + "---" + good), correlation_method="nonexistent")
print(out, [(r.title, type(e).__name__) for r, e in b.errors])
assert len(b.errors) == 1 and out.count("a=1") >= 1
