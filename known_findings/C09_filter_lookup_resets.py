"""C09: a filter listed by rule id resolves its target through SigmaCollection([rule]), whose constructor resolves
references - and thereby resets the rule's reference-derived state. Exit 0 + DEFECT while present."""
import sys
from sigma.collection import SigmaCollection
from sigma.backends.test import TextQueryTestBackend
DOC = """
title: base
id: 6f3e2987-db24-4c78-a860-b4f4095a7095
name: base
logsource: {category: test}
detection:
    sel: {a: 1}
    condition: sel
---
title: corr
correlation:
    type: event_count
    rules: [base]
    group-by: [a]
    timespan: 5m
    condition: {gte: 2}
---
title: f
logsource: {category: test}
filter:
    rules: [6f3e2987-db24-4c78-a860-b4f4095a7095]
    flt: {b: 2}
    condition: not flt
"""
docs = DOC.split("---")
c = SigmaCollection.from_yaml("---".join(docs[:2]))
f = SigmaCollection.from_yaml(docs[2], collect_filters=True)
c.rules += f.filters      # appended after load, as tests/test_filters.py does
q = TextQueryTestBackend().convert(c)
print(q)
if len(q) != 1:
    print("DEFECT: the base rule (referenced without generate) emits its own query after the filter was applied")
    sys.exit(0)
sys.exit(1)
