"""C07: a correlation rule whose `aliases` is not a map: in collecting mode the error is recorded, but the raw value stays in
the rule object and reference resolution (from_yaml -> __post_init__) calls a method on it: AttributeError instead of a
recorded Sigma error. Exit 0 + DEFECT while present, 1 when repaired."""
import sys
from sigma.collection import SigmaCollection
from sigma.exceptions import SigmaError
DOC = """
title: base
name: base
logsource: {category: test}
detection:
    sel: {a: 1}
    condition: sel
---
title: corr
correlation:
    type: event_count
    rules: [base]
    group-by: [a]
    timespan: 5m
    aliases: foo
    condition: {gte: 2}
"""
try:
    c = SigmaCollection.from_yaml(DOC, collect_errors=True)
except SigmaError as e:
    print("DEFECT: Sigma error raised in collecting mode:", type(e).__name__, e); sys.exit(0)
except Exception as e:
    print("DEFECT: non-Sigma exception leaves the collecting loader:", type(e).__name__, e); sys.exit(0)
print("errors:", [type(e).__name__ for e in c.errors])
sys.exit(1 if c.errors else 0)
