# witness for the recorded C01.R8 / C05.R4 / C10.R5 findings: templates that receive the raw field name
from sigma.collection import SigmaCollection
from sigma.backends.test import TextQueryTestBackend
r = "title: t\nlogsource: {category: x}\ndetection:\n  sel:\n    \"fie'ld|cidr\": 10.0.0.0/8\n  condition: sel\n"
q = TextQueryTestBackend().convert(SigmaCollection.from_yaml(r))[0]
print(q)
assert "fie'ld" in q and "fie\\'ld" not in q   # the quote inside the name is not escaped (pinned by test_convert_value_cidr*)
