# witness for the recorded C04.R4 finding: the utf16 modifier stores the BOM as the character U+FEFF, so the
# bytes of the value (and hence utf16|base64) start with its UTF-8 form EF BB BF instead of FF FE.
import base64
from sigma.rule import SigmaDetectionItem
v = SigmaDetectionItem.from_mapping("f|utf16|base64", "a").value[0]
raw = base64.b64decode(str(v))
print(raw, "expected", "a".encode("utf-16"))
assert raw.startswith(b"\xef\xbb\xbf") and raw != "a".encode("utf-16")
