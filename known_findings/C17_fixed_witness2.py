"""Witness for the C17 defects repaired after the second seeding round (both reported by the round-2 C17 agent on the unchanged tree)."""
from sigma.rule import SigmaRule
from sigma.processing.pipeline import ProcessingPipeline, ProcessingItem
from sigma.processing.transformations import ValueListPlaceholderTransformation
from sigma.backends.test import TextQueryTestBackend
from sigma.exceptions import SigmaPlaceholderError

y = "title: t\nlogsource: {category: x}\ndetection:\n  sel:\n    a|re|expand: '%x%-%y%'\n  condition: sel\n"
p = ProcessingPipeline([ProcessingItem(ValueListPlaceholderTransformation(include=["x"]))], vars={"x": ["1", "2"]})
try:
    q = TextQueryTestBackend(p).convert_rule(SigmaRule.from_yaml(y))
    raise AssertionError(f"leftover placeholder emitted as text: {q}")  # was ['a=/1-%y%/ or a=/2-%y%/']
except SigmaPlaceholderError:
    pass
y = "title: t\nlogsource: {category: x}\ndetection:\n  sel:\n    a|expand|cased: 'p%x%'\n  condition: sel\n"
p = ProcessingPipeline([ProcessingItem(ValueListPlaceholderTransformation())], vars={"x": ["1", "2"]})
assert TextQueryTestBackend(p).convert_rule(SigmaRule.from_yaml(y)) == ['a casematch "p1" or a casematch "p2"']  # was TypeError
print("OK")
