from sigma.backends.test import TextQueryTestBackend
from sigma.processing.pipeline import ProcessingPipeline, ProcessingItem
from sigma.processing.transformations import SetStateTransformation, AddConditionTransformation
from sigma.processing.conditions import RuleProcessingStateCondition, LogsourceCondition
from sigma.collection import SigmaCollection
r1 = """
title: win
logsource: {product: windows}
detection:
  sel: {a: 1}
  condition: sel
"""
r2 = """
title: lin
logsource: {product: linux}
detection:
  sel: {b: 2}
  condition: sel
"""
def mk():
    return ProcessingPipeline(items=[
        ProcessingItem(SetStateTransformation("k","v"), rule_conditions=[LogsourceCondition(product="windows")], identifier="set"),
        ProcessingItem(AddConditionTransformation({"idx":"x"}), rule_conditions=[RuleProcessingStateCondition("k","v")], identifier="add"),
    ])
A = TextQueryTestBackend(mk())
print("fresh r2:", A.convert(SigmaCollection.from_yaml(r2)))
A = TextQueryTestBackend(mk())
print("fresh r1,r2 same backend:", A.convert(SigmaCollection.from_yaml(r1)), A.convert(SigmaCollection.from_yaml(r2)))
p = mk()
A = TextQueryTestBackend(p); B = TextQueryTestBackend(p)
A.init_processing_pipeline(); B.init_processing_pipeline()
print("history :", A.convert_rule(SigmaCollection.from_yaml(r1).rules[0]), A.convert_rule(SigmaCollection.from_yaml(r2).rules[0]))
