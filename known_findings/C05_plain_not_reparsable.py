# witness for the recorded C05.R2 finding: the plain form is not a right inverse of the parser
from sigma.types import SigmaString, SpecialChars

s = SigmaString("a\\\\*")  # backslash, then wildcard
assert s.s == ["a\\", SpecialChars.WILDCARD_MULTI]
p = str(s)
print(p)
assert p == "a\\*"
assert SigmaString(p).s == ["a*"]  # re-parsed: a literal star, the wildcard is gone
t = SigmaString("a\\\\\\\\b")  # two backslashes
assert t.s == ["a\\\\b"] and SigmaString(str(t)).s == ["a\\b"]  # one backslash lost
print("defect present")
