"""Witnesses for the repaired C06 defects (all pass on the fixed tree, each failed before its fix)."""
from sigma.collection import SigmaCollection
from sigma.rule import SigmaRule
from sigma.correlations import SigmaCorrelationRule
from sigma.processing.pipeline import ProcessingPipeline, ProcessingItem
from sigma.processing.transformations import AddConditionTransformation
from sigma.backends.test import TextQueryTestBackend

# 1. condition written as changed by a condition transformation
r = SigmaRule.from_yaml("title: t\nlogsource: {category: x}\ndetection:\n  sel:\n    a: 1\n  condition: sel\n")
ProcessingPipeline([ProcessingItem(AddConditionTransformation({"idx": "main"}))]).apply(r)
r2 = SigmaRule.from_dict(r.to_dict())
assert TextQueryTestBackend().convert_rule(r) == TextQueryTestBackend().convert_rule(r2) == ['idx="main" and a=1']

# 2. empty value list
r = SigmaRule.from_yaml("title: t\nlogsource: {category: x}\ndetection:\n  sel:\n    a: []\n  condition: sel\n")
d = r.to_dict()
assert d["detection"]["sel"] == {"a": []} and SigmaRule.from_dict(d).to_dict() == d

# 3. license / related written
y = """
title: t
license: MIT
related:
  - id: 08fbc97d-0a2f-491c-ae21-8ffcfd3174e9
    type: derived
logsource: {category: x, product: p, vendor: acme}
detection:
  sel:
    a: 1
  condition: sel
"""
r = SigmaRule.from_yaml(y)
d = r.to_dict()
assert d["license"] == "MIT" and d["related"] == [{"id": "08fbc97d-0a2f-491c-ae21-8ffcfd3174e9", "type": "derived"}]
# 4. log source custom attributes written as such (were: 'custom_attributes': "{'vendor': 'acme'}")
assert d["logsource"] == {"category": "x", "product": "p", "vendor": "acme"}, d["logsource"]
r2 = SigmaRule.from_dict(d)
assert r2.to_dict() == d and r2.logsource.custom_attributes == {"vendor": "acme"} and r2.related == r.related

# 5. generate of correlation rules
c = SigmaCorrelationRule.from_yaml("""
title: c
correlation:
  type: event_count
  rules: [base]
  generate: true
  group-by: [u]
  timespan: 5m
  condition: {gte: 3}
""")
assert c.to_dict()["correlation"]["generate"] is True
assert SigmaCorrelationRule.from_dict(c.to_dict()).generate is True
print("OK")

# 6. one-to-many field mapping: serialisation fails instead of writing double-encoded, AND-linked items
from sigma.processing.transformations import FieldMappingTransformation
from sigma.exceptions import SigmaValueError
r = SigmaRule.from_yaml("title: t\nlogsource: {category: x}\ndetection:\n  sel:\n    a|base64: foo\n  condition: sel\n")
ProcessingPipeline([ProcessingItem(FieldMappingTransformation({"a": ["b", "c"]}))]).apply(r)
try:
    r.to_dict()
    raise AssertionError("to_dict() wrote a dict with another meaning")
except SigmaValueError:
    pass
print("OK")

# 7. value transformation on an item that keeps value modifiers: fails instead of re-encoding on load
from sigma.processing.transformations import ReplaceStringTransformation
r = SigmaRule.from_yaml("title: t\nlogsource: {category: x}\ndetection:\n  sel:\n    a|base64: foo\n  condition: sel\n")
ProcessingPipeline([ProcessingItem(ReplaceStringTransformation("^", "X"))]).apply(r)
try:
    r.to_dict()
    raise AssertionError("to_dict() wrote a|base64: <already encoded value>")
except SigmaValueError:
    pass
r = SigmaRule.from_yaml("title: t\nlogsource: {category: x}\ndetection:\n  sel:\n    a: foo\n  condition: sel\n")
ProcessingPipeline([ProcessingItem(ReplaceStringTransformation("^", "X"))]).apply(r)
assert r.to_dict()["detection"]["sel"] == {"a": "Xfoo"}  # without modifiers the re-synced form is faithful
print("OK")

# 8. OR-linked detection items created by a transformation are written as list of maps (was: one AND map)
from sigma.processing.transformations import HashesFieldsDetectionItemTransformation
r = SigmaRule.from_yaml("title: t\nlogsource: {category: x}\ndetection:\n  sel:\n    Hashes:\n      - 'MD5=987B65CD9B9F4E9A1AFD8F8B48CF64A7'\n      - 'SHA1=5F1CBC3D99558307BC1250D084FA968521482025'\n  condition: sel\n")
ProcessingPipeline([ProcessingItem(HashesFieldsDetectionItemTransformation(valid_hash_algos=["MD5", "SHA1"]))]).apply(r)
r2 = SigmaRule.from_dict(r.to_dict())
assert TextQueryTestBackend().convert_rule(r) == TextQueryTestBackend().convert_rule(r2)
assert r2.to_dict() == r.to_dict()
print("OK")
