"""C01 (not-equals mode): a value that a modifier expands into alternatives (windash) below NOT is rendered as
an OR of negated alternatives, which every event satisfies. Exit 0 + DEFECT while present, 1 when repaired."""
import sys
from sigma.backends.test import TextQueryTestBackend
from sigma.collection import SigmaCollection


class B(TextQueryTestBackend):
    convert_not_as_not_eq = True
    not_eq_expression = "{field}!={value}"
    not_startswith_expression = "{field} notstartswith {value}"
    not_endswith_expression = "{field} notendswith {value}"
    not_contains_expression = "{field} notcontains {value}"


rule = """
title: t
logsource: {category: c}
detection:
    sel:
        cmd|windash: "-a"
    condition: not sel
"""
q = B().convert(SigmaCollection.from_yaml(rule))[0]
print(q)
if "!=" in q and " or " in q and " and " not in q:
    print("DEFECT: `not cmd|windash: -a` is an OR of inequalities: the event cmd=\"-a\" satisfies cmd!=\"/a\", so the query matches what the rule excludes")
    sys.exit(0)
sys.exit(1)
