# witness for the recorded C10.R5 finding: the field of an alias mapping reaches the normalisation template raw
from sigma.collection import SigmaCollection
from sigma.backends.test import TextQueryTestBackend
docs = """
title: r
name: r
logsource: {category: x}
detection:
  sel: {a: 1}
  condition: sel
---
title: r2
name: r2
logsource: {category: x}
detection:
  sel: {b: 2}
  condition: sel
---
title: c
correlation:
  type: event_count
  rules: [r, r2]
  group-by: [u]
  timespan: 5m
  aliases:
    u:
      r: "field with space"
      r2: other
  condition: {gte: 2}
"""
out = TextQueryTestBackend().convert(SigmaCollection.from_yaml(docs))
print(out[-1])
assert "set u=field with space" in out[-1]   # group-by fields of the same backend are quoted: 'field with space' 
