# witness for C14.R5 (same root cause as C15.R5): resolving the same pipeline objects twice moves the
# item objects into the second sum; the first resolved pipeline then runs items whose state lives
# in the second one, which is never reset -> the linux rule sees the windows rule's state.
from sigma.backends.test import TextQueryTestBackend
from sigma.processing.pipeline import ProcessingPipeline, ProcessingItem
from sigma.processing.resolver import ProcessingPipelineResolver
from sigma.processing.transformations import SetStateTransformation, AddConditionTransformation
from sigma.processing.conditions import RuleProcessingStateCondition, LogsourceCondition
from sigma.collection import SigmaCollection
win = "title: win\nlogsource: {product: windows}\ndetection:\n  sel: {a: 1}\n  condition: sel\n"
lin = "title: lin\nlogsource: {product: linux}\ndetection:\n  sel: {b: 2}\n  condition: sel\n"
def resolver():
    p1 = ProcessingPipeline(name="p1", priority=10, items=[ProcessingItem(SetStateTransformation("k", "v"), rule_conditions=[LogsourceCondition(product="windows")], identifier="set")])
    p2 = ProcessingPipeline(name="p2", priority=20, items=[ProcessingItem(AddConditionTransformation({"idx": "x"}), rule_conditions=[RuleProcessingStateCondition("k", "v")], identifier="add")])
    return ProcessingPipelineResolver.from_pipeline_list([p1, p2])
def run(p):
    out = []
    for doc in (win, lin):
        rule = SigmaCollection.from_yaml(doc).rules[0]
        p.apply(rule)
        out.append(TextQueryTestBackend().convert_rule(rule))
    return out
r = resolver()
fresh = run(r.resolve(["p1", "p2"]))
r = resolver()
first = r.resolve(["p1", "p2"])
second = r.resolve(["p2", "p1"])          # same pipeline objects resolved again (argument order is irrelevant)
hist = run(first)
print("resolved once :", fresh)
print("resolved twice:", hist)
assert fresh == [['idx="x" and a=1'], ['b=2']] and hist != fresh
