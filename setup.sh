#!/bin/sh
# Offline setup: nothing is installed; verify the interpreter and mypy (a pinned dev dependency
# of the repository, present in /venv) and byte-compile the framework.
cd "$(dirname "$0")" || exit 1
PY=/venv/bin/python
[ -x "$PY" ] || { echo "missing $PY"; exit 1; }
"$PY" -c "import mypy, mypy.build, mypy.main; import ast, sys; print('python', sys.version.split()[0], 'mypy ok')" || exit 1
PYTHONPATH="$(pwd)" "$PY" -c "import sa.cli, sa.cfg, sa.prog, sa.mtypes, sa.callgraph, sa.report, sa.selftest" || exit 1
mkdir -p evidence
echo "setup ok"
